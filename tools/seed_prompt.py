#!/usr/bin/env python3
# prints the prompt given to a mutant-seeding sub-agent for one property
import json,sys
pid=sys.argv[1]
sfx=sys.argv[2] if len(sys.argv)>2 else ''
hint=sys.argv[3] if len(sys.argv)>3 else ''
for l in open('/verif/properties.jsonl'):
    p=json.loads(l)
    if p['id']==pid: break
else: sys.exit('no such property')
wid=pid+sfx
txt=json.dumps({k:p[k] for k in ('id','title','statement','quantifier','why_tests_cant','anchors')},indent=1)
print(f"""You are helping test a verification effort for the Go protobuf library (protocolbuffers/protobuf-go).
You have your own scratch git worktree of the repository at /tmp/seed/{wid} (a detached checkout; work ONLY there, never touch /repo or /verif, and do not read anything under /verif).
There is no network. Use: export GOFLAGS=-mod=mod GOPROXY=off GOSUMDB=off GOTOOLCHAIN=local  (go 1.23.5 is installed).

Here is a semantic property the library is supposed to satisfy:

{txt}

TASK: craft ONE small, realistic source change (a plausible bug a maintainer could introduce: off-by-one, wrong constant, missing check, wrong branch, two cooperating edits that each look fine alone, etc.) to the library's non-test Go code in /tmp/seed/{wid} such that:
 1. the library still compiles (go build ./... and go vet-free `go test -vet=off -run '^$' ./...`),
 2. the EXISTING test suite still passes with the change: at minimum run `go test -vet=off -count=1 ./...` from /tmp/seed/{wid} for the root module (it takes a few minutes; you may first run only the packages near your change, but finish with the whole root module) — if any existing test fails, pick a different change,
 3. the change BREAKS the property above, but only for something specific: an unusual input, a boundary value, a multi-step sequence, a particular length or bit pattern — NOT something that ordinary use would expose at once,
 4. you provide a demonstration: a new Go test file (name it zz_seed_demo_test.go, placed in the appropriate package dir of the worktree) with a test `TestSeedDemo` that FAILS with your change applied and PASSES on the unmodified code. Verify both directions yourself (use `git diff > /tmp/seedout/'{wid}'/my.diff; git apply -R ...` — do NOT use `git stash`: the stash is shared between worktrees and other agents are working concurrently).

Do not modify existing tests. Do not modify generated *.pb.go files (exception: the hand-maintained helper methods inside types/known/*/*.pb.go such as New, AsDuration, AsTime, check, CheckValid may be changed). Keep the change minimal (typically 1-5 lines). Prefer a change inside the code the property's anchors name. {hint}

DELIVERABLES (write these files):
 - /tmp/seedout/{wid}/patch.diff : output of `git diff` for the library change ONLY (without the demo test), applicable with `git apply` at the repo root
 - /tmp/seedout/{wid}/zz_seed_demo_test.go : the demonstration test, plus a first-line comment `// package-dir: <repo-relative dir>` telling where it goes
 - /tmp/seedout/{wid}/notes.md : what the change is, what specific input/sequence is needed to manifest it, and exactly which commands you ran (with their outcomes) to confirm: build ok, existing tests pass with the change, demo fails with the change, demo passes without it.
Leave the worktree with your change applied (uncommitted). Your final answer should be a 5-line summary.""")
