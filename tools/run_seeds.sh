#!/bin/bash
# usage: run_seeds.sh "<seed>:<prop>[,<prop>]" ...
cd /verif
for sp in "$@"; do
  s=${sp%%:*}; ps=${sp#*:}
  tools/run_seed.sh $s ${ps//,/ } 2>&1 | grep -E "^=== |^VIOLATION|^property=|^exit=|NOTE: harness" | cut -c1-260
done
