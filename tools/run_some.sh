#!/bin/bash
cd /verif
tier=quick
for p in "$@"; do
  t0=$(date +%s)
  ./check $p $tier > /tmp/reg_$p.log 2>&1; rc=$?
  t1=$(date +%s)
  echo "$p rc=$rc wall=$((t1-t0))s $(grep -c '^NOTE: harness' /tmp/reg_$p.log) notes; $(tail -1 /tmp/reg_$p.log | cut -c1-150)"
done
