#!/bin/bash
# smoke test of every thorough command with a reduced per-harness deadline (VERIF_DEADLINE), evidence to /tmp
cd /verif
for p in $(python3 -c "import json;print(' '.join(c['property_id'] for c in json.load(open('MANIFEST.json'))['checks']))"); do
  t0=$(date +%s)
  VERIF_DEADLINE=${1:-150} VERIF_EVIDENCE_DIR=/tmp/thorough_ev ./check $p thorough > /tmp/thor_$p.log 2>&1; rc=$?
  t1=$(date +%s)
  echo "$p rc=$rc wall=$((t1-t0))s notes=$(grep -c '^NOTE: harness' /tmp/thor_$p.log) known=$(grep -c '^KNOWN-FINDING' /tmp/thor_$p.log) viol=$(grep -c '^VIOLATION' /tmp/thor_$p.log)"
done
