#!/bin/bash
# runs every registered quick check sequentially, records wall time and exit status
cd /verif
for p in $(python3 -c "import json;print(' '.join(c['property_id'] for c in json.load(open('MANIFEST.json'))['checks']))"); do
  t0=$(date +%s)
  ./check $p ${1:-quick} > /tmp/reg_$p.log 2>&1; rc=$?
  t1=$(date +%s)
  echo "$p rc=$rc wall=$((t1-t0))s $(grep -c '^NOTE: harness' /tmp/reg_$p.log) notes; $(tail -1 /tmp/reg_$p.log | cut -c1-150)"
done
