#!/bin/bash
# runs every thorough command (real deadlines), evidence to /tmp/thorough_ev; cheap properties first
cd /verif
order=${ORDER:-"C01 C18 C30 C45 C43 C16 C27 C38 C39 C05 C35 C22 C23 C47 C36 C42 C11 C26 C25 C09 C29 C13 C10 C21 C02 C44 C14 C17 C07 C04 C03 C06 C12 C15"}
for p in $order; do
  t0=$(date +%s)
  VERIF_EVIDENCE_DIR=/tmp/thorough_ev ./check $p thorough > /tmp/thor_$p.log 2>&1; rc=$?
  t1=$(date +%s)
  echo "$p rc=$rc wall=$((t1-t0))s notes=$(grep -c '^NOTE: harness' /tmp/thor_$p.log) known=$(grep -c '^KNOWN-FINDING' /tmp/thor_$p.log) viol=$(grep -c '^VIOLATION' /tmp/thor_$p.log)"
done
