#!/usr/bin/env python3
# Regenerates Appendix C of DESIGN.md (harness catalogue) from `bin/gosymex list`.
import re, subprocess
out = subprocess.run(['/verif/bin/gosymex', 'list'], capture_output=True, text=True).stdout
rows = []
for l in out.splitlines():
    m = re.match(r'(\S+)\s+(\S+)\s+props=\[([^\]]*)\] opts=map\[(.*)\]$', l)
    if not m:
        continue
    pkg, fn, props, opts = m.groups()
    kv = dict(re.findall(r'(\w+):(\S+)', opts))
    tier = kv.get('tier')
    tiers = 'quick+thorough' if not tier else tier + ' only'
    rows.append((pkg, fn, props.replace(' ', ' '), kv.get('bounds', ''), tiers, kv.get('solver', 'z3')))
rows.sort()
tab = ["## Appendix C — harness catalogue as built", "",
       "Generated from the `//verif:` directives (`bin/gosymex list`, `tools/gen_catalogue.py`); %d harnesses. Bounds are the harness's own statement of what is symbolic; `(quick)/(thorough)` values are per tier." % len(rows),
       "", "| package under test | harness | properties | bounds | tiers | solver |", "|---|---|---|---|---|---|"]
for r in rows:
    tab.append("| %s | `%s` | %s | %s | %s | %s |" % r)
s = open('/verif/DESIGN.md').read()
i = s.index("## Appendix C — harness catalogue as built")
open('/verif/DESIGN.md', 'w').write(s[:i] + "\n".join(tab) + "\n")
print(len(rows), "harnesses")
