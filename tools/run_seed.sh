#!/bin/bash
# usage: run_seed.sh <seed-name> <prop> [prop...]
# Runs the quick checks against the seeded change. Default: in a scratch worktree of /repo
# (VERIF_REPO), so /repo itself is never touched. With SEED_IN_REPO=1 the patch is applied to
# /repo's working tree instead and undone afterwards (git -C /repo checkout -- .).
name=$1; shift
cd /verif
if [ "${SEED_IN_REPO:-0}" = 1 ]; then
  git -C /repo diff --quiet || { echo "/repo is dirty"; exit 2; }
  git -C /repo apply /verif/seeded/$name/patch.diff || { echo "patch failed"; exit 2; }
  trap 'git -C /repo checkout -- . ; rm -rf /tmp/seed_ev_$name' EXIT
  R=/repo
else
  R=/tmp/seedwt_$name; rm -rf $R; git -C /repo worktree prune
  git -C /repo worktree add --detach $R HEAD >/dev/null 2>&1 || { echo "worktree failed"; exit 2; }
  trap 'git -C /repo worktree remove --force $R >/dev/null 2>&1; rm -rf /tmp/seed_ev_$name' EXIT
  git -C $R apply /verif/seeded/$name/patch.diff || { echo "patch failed"; exit 2; }
fi
for p in "$@"; do
  echo "=== seed $name vs $p"
  VERIF_REPO=$R VERIF_EVIDENCE_DIR=/tmp/seed_ev_$name ./check $p quick 2>&1 | grep -E "^VIOLATION|^  harness=|^property=|^KNOWN|inconclusive" | cut -c1-300
  echo "exit=${PIPESTATUS[0]}"
done
