#!/bin/bash
# usage: run_seed.sh <seed-name> <prop> [prop...]: applies /verif/seeded/<name>/patch.diff to /repo, runs the quick checks, restores /repo
name=$1; shift
cd /verif
git -C /repo diff --quiet || { echo "/repo is dirty"; exit 2; }
git -C /repo apply /verif/seeded/$name/patch.diff || { echo "patch failed"; exit 2; }
trap 'git -C /repo checkout -- . ; rm -rf /tmp/seed_ev' EXIT
for p in "$@"; do
  echo "=== seed $name vs $p"
  VERIF_EVIDENCE_DIR=/tmp/seed_ev ./check $p quick 2>&1 | grep -E "^VIOLATION|^  harness=|^property=|^KNOWN|inconclusive" | cut -c1-300
  echo "exit=${PIPESTATUS[0]}"
done
