#!/bin/bash
# usage: confirm_seed.sh <prop-id> [srcdir]  — confirms a seeded change in a fresh scratch worktree and files it under /verif/seeded/<id>/
# srcdir (default /tmp/seedout/<id>) must hold patch.diff, zz_seed_demo_test.go (first line "// package-dir: <dir>"), notes.md
set -u
id=$1; src=${2:-/tmp/seedout/$id}; name=${3:-$id}
export GOFLAGS=-mod=mod GOPROXY=off GOSUMDB=off GOTOOLCHAIN=local
wt=/tmp/cs/$name; rm -rf $wt; mkdir -p /tmp/cs
git -C /repo worktree prune
git -C /repo worktree add --detach $wt HEAD >/dev/null 2>&1 || { echo "worktree failed"; exit 2; }
trap 'git -C /repo worktree remove --force $wt >/dev/null 2>&1; rm -rf $wt' EXIT
pkgdir=$(head -1 $src/zz_seed_demo_test.go | sed -n 's,^// package-dir: *,,p' | tr -d ' \r')
[ -n "$pkgdir" ] || { echo "no package-dir line"; exit 2; }
log=/tmp/cs/$name.log; : > $log
cd $wt
cp $src/zz_seed_demo_test.go $pkgdir/zz_seed_demo_test.go
echo "== demo on unmodified tree" >> $log
go test -vet=off -count=1 -run '^TestSeedDemo$' ./$pkgdir >> $log 2>&1; demo_clean=$?
git apply $src/patch.diff >> $log 2>&1 || { echo "patch does not apply"; exit 3; }
echo "== build" >> $log
go build ./... >> $log 2>&1; build=$?
echo "== demo with change" >> $log
go test -vet=off -count=1 -run '^TestSeedDemo$' ./$pkgdir >> $log 2>&1; demo_mut=$?
rm $pkgdir/zz_seed_demo_test.go
echo "== existing tests with change (root module)" >> $log
go test -vet=off -count=1 ./... > /tmp/cs/$name.full.log 2>&1; full=$?
grep -v '^ok\|no test files' /tmp/cs/$name.full.log | head -20 >> $log
echo "RESULT $name demo_clean=$demo_clean build=$build demo_mut=$demo_mut existing_tests=$full" | tee -a $log
if [ $demo_clean = 0 ] && [ $build = 0 ] && [ $demo_mut != 0 ] && [ $full = 0 ]; then
  d=/verif/seeded/$name; mkdir -p $d
  cp $src/patch.diff $src/zz_seed_demo_test.go $d/; [ -f $src/notes.md ] && cp $src/notes.md $d/
  python3 - "$id" "$name" "$pkgdir" <<'PY'
import json,sys,subprocess
pid,name,pkg=sys.argv[1:4]
notes=open(f'/verif/seeded/{name}/notes.md').read() if True else ''
head=subprocess.run(['git','-C','/repo','rev-parse','HEAD'],capture_output=True,text=True).stdout.strip()
meta={"property":pid,"name":name,"demo_package_dir":pkg,"confirmed_at_repo_commit":head,
 "confirmed":{"demo_passes_on_unmodified_tree":True,"builds_with_change":True,"demo_fails_with_change":True,"existing_root_module_tests_pass_with_change":True},
 "commands_run":["go test -vet=off -count=1 -run '^TestSeedDemo$' ./"+pkg+"  (clean tree: pass)","git apply patch.diff","go build ./...","go test -vet=off -count=1 -run '^TestSeedDemo$' ./"+pkg+"  (with change: FAIL)","go test -vet=off -count=1 ./...  (with change, demo removed: all ok)"],
 "needs_to_manifest":"see notes.md","source":"independent sub-agent given only the property text and a scratch worktree"}
json.dump(meta,open(f'/verif/seeded/{name}/meta.json','w'),indent=1)
PY
  echo "FILED $name"
else
  echo "NOT CONFIRMED $name (see $log)"
fi
