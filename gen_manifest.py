#!/usr/bin/env python3
"""Regenerates MANIFEST.json from the claims table below (single source of truth)."""
import json

TECH = "SMT-based bounded symbolic execution of the real Go code (go/ssa -> QF_BV, z3/cvc5), native replay of counterexamples"
NOTE = ("Trusted: go/ssa lowering, engine instruction semantics + listed stubs (every sat answer is replayed natively; unsat answers trusted), "
        "gc/amd64 layout, sequential semantics. Bounds per harness are in the evidence file; inputs beyond them are outside the claim.")

CLAIMS = {
 "C01": ("§5 C01", "All protowire primitives encoded whole from go/ssa; every uint64/int64/uint32, every valid field number and 3-bit type, payloads<=4 bytes, prefix<=2 bytes: round trip, exact consumption, Size agreement, shortest varint, ZigZag/tag/bool bijection, group body recovery. Bounded model checking at full machine width, not a proof about arbitrary payload lengths."),
 "C02": ("§5 C02", "ConsumeField/ConsumeTag/ConsumeFieldValue/ConsumeGroup/consumeFieldValueD compared with a reference recursive-descent scanner written from the wire grammar (error classes included) on every byte string up to 5 bytes (7 thorough), plus structured long inputs (8..11-byte varints, 5..10-byte tags, 12-byte fields per wire type, group with a >=9-byte varint) that reach the 10th-varint-byte arms; small symbolic recursion limits; ParseError mapping for every int."),
 "C03": ("§0a, §5 C03", "Message-level, fast path: for every message reachable by decoding <=3..4 (5 thorough) wire bytes (and one complete field of every wire type incl. 10-byte varints) into the corpus mirror types (proto2/proto3 scalars, packed/unpacked repeated, messages, groups, recursion, required, opaque+lazy) whose coder tables are built by the real makeCoderMethods/makeOpaqueCoderMethods: Unmarshal(Marshal(m)) has the same deterministic encoding as m, default == deterministic marshal, lazy and eager decoding agree. Reflection-codec length-prefix fix-up (finishSpeculativeLength) for every payload length across the 1/2/3-byte varint boundaries. Maps, oneofs, extensions, dynamicpb, real generated types are outside."),
 "C04": ("§0a, §5 C04", "sizePointer == len(marshalAppendPointer) and prefix preservation for every message reachable from the bounded inputs of C03 on the corpus types (default, deterministic, cached-size, lazily decoded); appendSpeculativeLength/finishSpeculativeLength produce prefix++varint(len)++payload for lengths 0..130 and 16380..16390. Maps/oneofs/extensions outside."),
 "C05": ("§5 C05", "Kernel only: order.LegacyFieldOrder/NumberFieldOrder/IndexNameFieldOrder are strict total orders on 3 fields with symbolic numbers/indexes/names/oneof+extension membership (unique sorted order); GenericKeyOrder is a strict total order matching the documented order on 3 keys of one scalar type; on the corpus default and deterministic marshal coincide (C03 harness). appendMapDeterministic, cross-process determinism and 'equal bytes => Equal' are outside."),
 "C06": ("§0a, §5 C06", "unmarshalPointer vs validate vs the generic protowire scan vs checkInitializedPointer on every byte string <=3..4 (5..6 thorough) for 7 corpus types, plus one-field structured inputs (symbolic tag byte, exact-shape payloads up to 10-byte varints), small symbolic recursion limits 0..3 on VNests: never panics, consumes exactly its input, accepts only well-formed wire data, rejects all malformed data, Valid=>decodes, Invalid=>fails, never reports a partial message initialized."),
 "C07": ("§0a, §5 C07", "mergePointer vs decoding of concatenations on corpus types, |x|+|y|<=3 (5 thorough): Merge(a,b)==Unmarshal(Marshal(a)++Marshal(b)), Unmarshal(x++y)==Merge(Unmarshal x,Unmarshal y), decoding y into a populated message == Merge; source unchanged. Known finding (thorough bound only): explicit zero of an implicit-presence scalar in y. Reflection merge, maps, oneofs, extensions outside."),
 "C09": ("§0a, §5 C09", "On corpus types and VEmpty: unknown fields survive decode/marshal (round trip via canon), decoding via a schema that knows no field and re-encoding gives the same message as decoding directly, DiscardUnknown leaves no unknown bytes anywhere in the tree (walker over the mirror types); inputs <=3..4 (5) bytes and one-field structured inputs."),
 "C10": ("§0a, §5 C10", "Three accountings of required fields (decoder requiredMask/initialized flag, validate's mask, checkInitializedPointer) on VReq, VReqOuter (required below message/repeated/group) and the opaque VReqO: flag=>complete, validator flag=>complete, and complete=>flag on the re-marshalled form; open and opaque flavours agree; a message with 66 required fields (VBig) reports whichever single field is missing; a lazily decoded child with required fields (VLazyReq) gets the same verdict lazily and eagerly; required fields below a cycle of message types vs a reference walk (one known finding: needsInitCheck provisional-false caching). JSON/text paths, extensions, map values, oneofs outside."),
 "C11": ("§0a, §5 C11", "Opaque presence bitmap: one step of SetPresent/SetPresentUnatomic/ClearPresent/Present/AnyPresent/PresentInCache from an arbitrary bitmap state (covers every history); implicit-presence zero never encoded and explicit proto3 optional encoded once set (VScalars3, inputs<=4); open vs opaque presence-carrying flavours agree. Reflection Has, JSON/text presence outside."),
 "C13": ("§0a, §5 C13", "Validated (proto3) vs non-validated string/bytes fields on VScalars3/VRepeats/VScalars2: decoder and validator agree on acceptance for every input <=3 bytes and for every one-field payload <=3 bytes (all rune widths need 4: thorough), round trip unchanged. Map keys/values, JSON/text message level outside."),
 "C14": ("§0a, §5 C14", "After unmarshalPointer returns, overwriting every input byte with arbitrary values leaves the deterministic encoding unchanged (5 corpus types incl. unknown fields; lazily decoded VNode (lazy child bodies <=3 bytes, optionally after an empty decode) and VHolder{VNode} with the node field twice on the wire, compared with a twin decoded from a private copy and inspected only after the overwrite); after mergePointer, overwriting the source's byte slices/scalars leaves the destination unchanged. Clone via reflection, maps outside."),
 "C16": ("§0a, §5 C16", "Size caches of the whole tree set to arbitrary int32 values (= every history of earlier Size/Marshal calls and mutations), then the exact sequence proto.Marshal performs (sizePointer, marshalAppendPointer with UseCachedSize) yields the encoding of the current content; VNests/VReqOuter/VScalars2 from inputs <=4 (5) bytes."),
 "C17": ("§0a, §5 C17", "Opaque VNode with a lazy self-recursive child: lazy vs NoLazyDecoding on every input <=3 (5) bytes and on structured inputs (child bodies, repeated/out-of-order/non-contiguous children): same verdict, initialized flag, presence bits, Size==len, pass-through bytes decode to the same message, same deterministic bytes, same CheckInitialized, forcing every lazy field never panics; DiscardUnknown never re-emits unknown fields through raw pass-through; protolazy.lookupField vs reference on sorted indexes <=4 entries; buildIndex/SizeField/AppendField segments on scan-accepted inputs <=5 (6)."),
 "C18": ("§5 C18", "Consistency half only: one inductive step of every write-once publication primitive (AtomicSetPointerIfNil, AtomicInitializePointer, AtomicLoadPointer, atomicV1MessageInfo.SetIfNil, atomicNilMessage.Init) from an arbitrary cell state: a published value is never overwritten, every caller obtains the final value. Data-race freedom (Go memory model) is outside this technique."),
 "C22": ("§5 C22", "Integers only: JSON number literals of case-split shape (sign, <=2 (5) integer digits, <=2 (3) fraction digits, exponent in {-3..3,17..22} (-25..25), all digits symbolic) and 19/20-digit plain integers around 2^63 and 2^64 (concrete prefix, three symbolic digits) through parseNumberParts -> normalizeToIntString -> strconv vs exact reference arithmetic for int32/int64/uint32/uint64 (cvc5 integer back end): accepted iff integral and in range, value exact. Floats, enums, base64 outside."),
 "C26": ("§5 C26", "Kernel: internal/set.Ints one inductive step (Set/Clear/Has/Len from arbitrary state, 63/64 boundary) for duplicate detection; JSON token decoder total on every document <=4 (5) bytes; text parseString total. RecursionLimit and seenNums call sites in protojson/prototext.unmarshalMessage outside."),
 "C27": ("§5 C27", "protodelim framing logic whole: UnmarshalFrom on every stream <=5 (6) bytes with 3 reader behaviours (bulk, byte-at-a-time, data+EOF together), MaxSize symbolic 1..4 / default / unlimited: io.EOF exactly at a clean boundary, io.ErrUnexpectedEOF inside size or body, SizeTooLargeError (all uint64 sizes x all MaxSize), body handed to Unmarshal exactly, exact consumption; MarshalTo writes varint(len)++msg and is read back message after message. Messages themselves stubbed (recording model message); bufio fast path outside."),
 "C29": ("§0a, §5 C29", "Open-struct vs opaque flavour of the same schema on the fast path (VReq/VReqO, VScalars2/VScalarsO): same verdict, initialized flag, identical deterministic bytes, Size, CheckInitialized and validator results on every input <=3..4 (5..6) bytes and on one-field structured inputs. Hybrid API, builders/setters, dynamicpb, JSON/text outside."),
 "C38": ("§5 C38", "Kernel only: filedesc.unmarshalFeatureSet/unmarshalGoFeature resolve every feature flag to the last explicit setting in the options bytes (<=3 settings of features 1..6 with enum values 0..3, optional Go-features block; enum numbers written out from descriptor.proto) else to the arbitrary parent's value; getFeaturesFor picks the defaults of the greatest known edition not above the requested one on arbitrary sorted tables of 1..3 editions. protodesc's resolution (proto.GetExtension) and 'proto2/proto3 file == editions translation' at runtime are outside."),
 "C39": ("§5 C39", "defval Marshal/Unmarshal round trip: bytes defaults of every content <=3 (4) bytes in both formats (real text.UnmarshalString underneath, exact Sprintf octal model), bool and string defaults. Integer kinds (strconv.FormatInt/ParseInt digit loops: solver unknown within budget, tried and dropped), floats and enums by name are outside."),
 "C21": ("§5 C21", "internal/encoding/json token level: parseNumber vs the RFC 8259 number grammar on every byte string <=6 (8 thorough) in both directions (accepted => grammatical and delimiter-terminated; grammatical+delimiter => accepted whole), parseString vs an RFC 8259 string reference incl. decoded value on quote+<=5 (7) bytes, on \\uXXXX escapes with symbolic digits and on high-surrogate escapes followed by two free bytes and four hex digits (pairs, lone and malformed surrogates), null/true/false matching, and Decoder.Read to EOF on every document <=4 (5) bytes: accepted => the reference JSON grammar accepts. Message-level protojson output is outside."),
 "C23": ("§5 C23", "protojson.parseDuration vs a three-valued reference recogniser of the documented Duration grammar with exact (seconds,nanos) incl. sign rule on every string <=6 (8 thorough) bytes, plus structured long literals (sign, <=13 integer digits, none/0/1/9/10 fractional digits, all digits symbolic; cvc5 integer back end) and integer parts around 2^63/2^64 (concrete prefix + 3 symbolic digits: fits-int64 <=> accepted). unmarshalDuration's +-315576000000 range check through a model message (quoted literals just below/at/above the limit, two symbolic digits): out of range <=> rejected, stored (seconds,nanos) exact. FieldMask JSON reversibility kernel (JSONCamelCase/JSONSnakeCase) via C42's harness. Timestamp text (time.Parse), Struct/Value/Any, wrappers and the marshal side (fmt formatting) are outside."),
 "C25": ("§5 C25", "text.appendString -> UnmarshalString round trip for every byte string <=2 (3 thorough) bytes and for every valid 3-byte and 4-byte UTF-8 sequence (all BMP and supplementary code points) in both outputASCII modes (byte-exact, ASCII mode emits only 0x20..0x7e), and parseString totality on quote+<=4 (5) arbitrary bytes with either quote. Strings longer than the bound are outside."),
 "C30": ("§5 C30", "protoreflect.Value.Equal on scalar Values of the 10 scalar kinds with full-width symbolic contents (floats through the SMT FloatingPoint theory, strings/bytes <=2 bytes): reflexive incl. NaN, symmetric, transitive, different kinds unequal, nil bytes == empty bytes; list equality element-wise on lists <=2. Message/map equality, equalUnknown (reflect.DeepEqual) and protocmp are outside."),
 "C35": ("§5 C35", "filedesc.FieldRanges/EnumRanges.CheckValid vs a reference (valid bounds, non-empty, pairwise disjoint, order independent) on <=3 (4) ranges with all-int32 bounds, CheckOverlap on two valid lists, Names.CheckValid vs duplicate detection, protoreflect.Name/FullName.IsValid vs the identifier grammar on all strings <=5 (6). NewFile as a whole and the other validators are outside."),
 "C36": ("§5 C36", "FieldRanges/EnumRanges.Has == membership in the listed ranges for every int32 probe on every valid list of <=3 (4) ranges (binary search on every shape), Get(i), Names.Has, FieldNumbers.Has, FullName Append/Parent/Name inverse laws on valid names. Descriptors built by the real builders are outside."),
 "C42": ("§5 C42", "strs.GoCamelCase maps every valid proto (full) identifier <=5 (6) bytes to an exported ASCII Go identifier; JSONSnakeCase(JSONCamelCase(s))==s exactly on the lowerCamel-convertible domain (the FieldMask reversibility test); TrimEnumPrefix never empty and returns a suffix; MapEntryName. GoSanitized (unicode tables) and name uniqueness inside protogen are outside."),
 "C44": ("§5 C44", "fieldmaskpb: lessPath is a strict total order equal to the documented one, hasPathPrefix equals its definition, rangeFields splits exactly at dots, Normalize output is sorted/prefix-free/selects the same path set/idempotent (<=3 paths of <=2 (3) bytes, symbolic probe path), Union/Intersect select a probe iff some/all operands do (2x<=2 paths). numValidPaths against real descriptors is outside."),
 "C47": ("§5 C47", "internal/encoding/messageset item format: items with every type id 1..MaxInt32, bodies <=3 bytes, both field orders, optional interleaved unknown field and split message fields are read by ConsumeFieldValue as (id, body, exact length) in both wantLen modes; SizeField; Unmarshal total and scan-consistent on every byte string <=5 (6); AppendUnknown/SizeUnknown agree and re-read. Resolved extensions and the impl fast path under -tags protolegacy are outside."),
 "C43": ("§5 C43", "durationpb.AsDuration vs an exact 128-bit multiply-add-clamp specification for every (int64,int32) (cvc5 --solve-bv-as-int=sum); New(d).AsDuration()==d and validity for every int64 duration; both check() functions vs the documented ranges for every (int64,int32); timestamppb.New(t).AsTime() for every time.Time bit pattern with nsec<1e9 in both the wall-only and the monotonic encoding (real time.Unix/UTC/Equal SSA executed). One known finding (mixed-sign seconds/nanos with seconds*1e9 overflowing) is listed in known_findings.json."),
}

NA = {
 "C08": "comparing the generated fast path with the reflection path needs the reflection codec (proto/decode.go, encode.go slow path) driven over protoreflect.Message implementations of real messages, i.e. reflect-built fieldInfo closures or dynamicpb's descriptor-keyed maps, which the SSA encoder cannot execute; the two leaf-codec kernels alone do not decide the property and were not built",
 "C15": "Reset and pre-decode clearing of real messages go through generated Reset methods / reflection Clear over fieldInfo closures; only proto.UnmarshalOptions' Reset-before-decode ordering was observable (it is asserted inside C27's model-message harness) and that alone is not a claim of this property",
 "C20": "message-level protojson round trip is descriptor- and reflection-driven and floats need strconv's Ryu/Eisel-Lemire (not encodable); the JSON string encode/decode kernel is checked under C21 and integers under C22",
 "C24": "message-level prototext round trip is descriptor/reflection-driven and the float clauses (every float32 bit pattern) need strconv; the string-literal kernel is checked under C25",
 "C45": "structpb/anypb conversions are reflection, map[string]any iteration, registry lookups and encoding/json; the scalar NewValue kernel planned in DESIGN §5 was not built",
 "C46": "legacy wrapping (legacyLoadMessageDesc, aberrant struct-tag derivation) is reflect.Type-driven end to end; the tag codec kernel planned in DESIGN §5 was not built",
 "C12": "oneof exclusivity lives in reflect-built closures (fieldInfoForOneof, initOneofFieldCoders), dynamicpb maps keyed by descriptors and descriptor-driven JSON/text decoding; no encodable kernel carries 'at most one member'",
 "C19": "needs the Go memory model and goroutine scheduling; guarded bodies are reflection/map code; a sequential SMT encoding of go/ssa cannot express data races",
 "C28": "fieldInfo has/get/set/mutable are closures built from reflect.Type; convert_list/convert_map are reflect; dynamicpb is maps of protoreflect.Value keyed by descriptors",
 "C31": "quantifier is over (type x entry point), finite and input-free: no symbolic dimension for a solver; enumerating concrete calls is not this technique",
 "C32": "traversal over protoreflect.Message/List/Map interfaces of real messages => reflection closures, not encodable",
 "C33": "registry state is Go maps from strings to descriptor interfaces with package-prefix walks; encodable FullName helpers are claimed under C36",
 "C34": "protodesc reads descriptorpb via extensions/reflection and builds interface-typed descriptors; thousands of lines of pointer-rich construction; default-value kernel is C39",
 "C37": "two large constructions (filedesc lazy raw-bytes builder vs protodesc) compared accessor by accessor: whole-program, not a unit within solver reach",
 "C40": "protogen drives go/printer, go/format, descriptors and I/O; process-level nondeterminism is outside symbolic execution of a unit",
 "C41": "needs go build of generated output and a runtime comparison program; not a solver question",
}

ALL = ["C%02d" % i for i in range(1, 48)]

def main():
    checks = []
    for pid in ALL:
        if pid not in CLAIMS:
            continue
        ref, text = CLAIMS[pid]
        checks.append({
            "property_id": pid,
            "quick_cmd": "./check %s quick" % pid,
            "thorough_cmd": "./check %s thorough" % pid,
            "evidence_file": "/verif/evidence/%s.json" % pid,
            "replay_cmd_template": "./check %s --replay {path}" % pid,
            "engine": "gosymex",
            "level_claimed": {"category": "model_checking", "text": text, "design_ref": "DESIGN.md " + ref},
            "level_note": NOTE,
            "technique": TECH,
        })
    na = []
    for pid in ALL:
        if pid in CLAIMS:
            continue
        na.append({"property_id": pid, "reason": NA.get(pid, "not claimed yet: harnesses for this property are not built/registered in this revision (see DESIGN.md §5 for the plan)")})
    m = {
        "version": 1,
        "setup_cmd": "./setup.sh",
        "hooks": {
            "guard": "verif",
            "enable": "no source hooks: harness files under /verif/harness (//go:build verif) and the nd package are injected as go/packages and `go test -overlay` overlays by the engine; nothing is committed to /repo for instrumentation",
            "baseline_off_cmd": "for m in $(cat /w/out/gomods.txt); do MF=$(cd /repo/$m && . /w/out/goenv.sh && gomodflag); (cd /repo/$m && go test $MF -json -vet=off -count=1 -timeout 25m ./...); done",
            "source_commits": [],
            "add_only": True,
        },
        "engines": [{"name": "gosymex", "path": "/verif/engine", "serves_properties": sorted(CLAIMS), "kind_free_text": "own go/ssa symbolic executor (byte-offset memory, KLEE-style forking) emitting SMT-LIB2 to persistent z3 / cvc5 processes; counterexamples replayed natively via go test -overlay"}],
        "checks": checks,
        "not_applicable": na,
        "notes": "Every check regenerates its encoding from /repo's working tree on each run. inconclusive/incomplete/vacuous harnesses are reported as NOTE lines and in evidence, never as held and never as violations.",
    }
    json.dump(m, open("/verif/MANIFEST.json", "w"), indent=1)
    print("claimed", len(checks), "not claimed", len(na))

main()
