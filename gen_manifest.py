#!/usr/bin/env python3
"""Regenerates MANIFEST.json from the claims table below (single source of truth)."""
import json

TECH = "SMT-based bounded symbolic execution of the real Go code (go/ssa -> QF_BV, z3/cvc5), native replay of counterexamples"
NOTE = ("Trusted: go/ssa lowering, engine instruction semantics + listed stubs (every sat answer is replayed natively; unsat answers trusted), "
        "gc/amd64 layout, sequential semantics. Bounds per harness are in the evidence file; inputs beyond them are outside the claim.")

CLAIMS = {
 "C01": ("§5 C01", "All protowire primitives encoded whole from go/ssa; every uint64/int64/uint32, every valid field number and 3-bit type, payloads<=4 bytes, prefix<=2 bytes: round trip, exact consumption, Size agreement, shortest varint, ZigZag/tag/bool bijection, group body recovery. Bounded model checking at full machine width, not a proof about arbitrary payload lengths."),
 "C02": ("§5 C02", "ConsumeField/ConsumeTag/ConsumeFieldValue/ConsumeGroup/consumeFieldValueD compared with a reference recursive-descent scanner written from the wire grammar (error classes included) on every byte string up to 5 bytes (7 thorough), plus structured long inputs (8..11-byte varints, 5..10-byte tags, 12-byte fields per wire type, group with a >=9-byte varint) that reach the 10th-varint-byte arms; small symbolic recursion limits; ParseError mapping for every int."),
 "C43": ("§5 C43", "durationpb.AsDuration vs an exact 128-bit multiply-add-clamp specification for every (int64,int32) (cvc5 --solve-bv-as-int=sum); New(d).AsDuration()==d and validity for every int64 duration; both check() functions vs the documented ranges for every (int64,int32); timestamppb.New(t).AsTime() for every time.Time bit pattern with nsec<1e9 in both the wall-only and the monotonic encoding (real time.Unix/UTC/Equal SSA executed). One known finding (mixed-sign seconds/nanos with seconds*1e9 overflowing) is listed in known_findings.json."),
}

NA = {
 "C12": "oneof exclusivity lives in reflect-built closures (fieldInfoForOneof, initOneofFieldCoders), dynamicpb maps keyed by descriptors and descriptor-driven JSON/text decoding; no encodable kernel carries 'at most one member'",
 "C19": "needs the Go memory model and goroutine scheduling; guarded bodies are reflection/map code; a sequential SMT encoding of go/ssa cannot express data races",
 "C28": "fieldInfo has/get/set/mutable are closures built from reflect.Type; convert_list/convert_map are reflect; dynamicpb is maps of protoreflect.Value keyed by descriptors",
 "C31": "quantifier is over (type x entry point), finite and input-free: no symbolic dimension for a solver; enumerating concrete calls is not this technique",
 "C32": "traversal over protoreflect.Message/List/Map interfaces of real messages => reflection closures, not encodable",
 "C33": "registry state is Go maps from strings to descriptor interfaces with package-prefix walks; encodable FullName helpers are claimed under C36",
 "C34": "protodesc reads descriptorpb via extensions/reflection and builds interface-typed descriptors; thousands of lines of pointer-rich construction; default-value kernel is C39",
 "C37": "two large constructions (filedesc lazy raw-bytes builder vs protodesc) compared accessor by accessor: whole-program, not a unit within solver reach",
 "C40": "protogen drives go/printer, go/format, descriptors and I/O; process-level nondeterminism is outside symbolic execution of a unit",
 "C41": "needs go build of generated output and a runtime comparison program; not a solver question",
}

ALL = ["C%02d" % i for i in range(1, 48)]

def main():
    checks = []
    for pid in ALL:
        if pid not in CLAIMS:
            continue
        ref, text = CLAIMS[pid]
        checks.append({
            "property_id": pid,
            "quick_cmd": "./check %s quick" % pid,
            "thorough_cmd": "./check %s thorough" % pid,
            "evidence_file": "/verif/evidence/%s.json" % pid,
            "replay_cmd_template": "./check %s --replay {path}" % pid,
            "engine": "gosymex",
            "level_claimed": {"category": "model_checking", "text": text, "design_ref": "DESIGN.md " + ref},
            "level_note": NOTE,
            "technique": TECH,
        })
    na = []
    for pid in ALL:
        if pid in CLAIMS:
            continue
        na.append({"property_id": pid, "reason": NA.get(pid, "not claimed yet: harnesses for this property are not built/registered in this revision (see DESIGN.md §5 for the plan)")})
    m = {
        "version": 1,
        "setup_cmd": "./setup.sh",
        "hooks": {
            "guard": "verif",
            "enable": "no source hooks: harness files under /verif/harness (//go:build verif) and the nd package are injected as go/packages and `go test -overlay` overlays by the engine; nothing is committed to /repo for instrumentation",
            "baseline_off_cmd": "for m in $(cat /w/out/gomods.txt); do MF=$(cd /repo/$m && . /w/out/goenv.sh && gomodflag); (cd /repo/$m && go test $MF -json -vet=off -count=1 -timeout 25m ./...); done",
            "source_commits": [],
            "add_only": True,
        },
        "engines": [{"name": "gosymex", "path": "/verif/engine", "serves_properties": sorted(CLAIMS), "kind_free_text": "own go/ssa symbolic executor (byte-offset memory, KLEE-style forking) emitting SMT-LIB2 to persistent z3 / cvc5 processes; counterexamples replayed natively via go test -overlay"}],
        "checks": checks,
        "not_applicable": na,
        "notes": "Every check regenerates its encoding from /repo's working tree on each run. inconclusive/incomplete/vacuous harnesses are reported as NOTE lines and in evidence, never as held and never as violations.",
    }
    json.dump(m, open("/verif/MANIFEST.json", "w"), indent=1)
    print("claimed", len(checks), "not claimed", len(na))

main()
