package main

// Speculative if-conversion of pure regions: at a branch on a symbolic condition, when the
// region between the branch and its join consists only of side-effect-free instructions
// (arithmetic, comparisons, conversions, loads, address computations) the region is executed
// unconditionally and the join's phis become ite terms. This removes harness- and
// oracle-induced forking (`ok = ok && a[i] == b[i]`, digit classification, `x || y`).
// Any instruction that would need a decision, could panic, or has an effect aborts the
// attempt and the ordinary fork is taken, so the transformation never changes semantics.

import (
	"go/token"
	"sync"

	"golang.org/x/tools/go/ssa"
)

type specAbort struct{}

var noIfConv sync.Map // *ssa.If -> true (structurally not convertible)

const (
	specMaxInstrs = 96
	specMaxLeaves = 12
)

type specLeaf struct {
	pred *ssa.BasicBlock
	cond *Term
}

func specPure(in ssa.Instruction) bool {
	switch x := in.(type) {
	case *ssa.DebugRef:
		return true
	case *ssa.BinOp:
		switch x.Op {
		case token.QUO, token.REM:
			c, ok := x.Y.(*ssa.Const)
			return ok && c.Value != nil && !isFloat(c.Type()) && c.Uint64() != 0 && isIntegerType(c.Type())
		}
		return true
	case *ssa.UnOp:
		return x.Op != token.ARROW
	case *ssa.Convert:
		return intWidth(x.X.Type()) > 0 && intWidth(x.Type()) > 0
	case *ssa.ChangeType, *ssa.IndexAddr, *ssa.Index, *ssa.FieldAddr, *ssa.Field, *ssa.Extract, *ssa.Slice:
		return true
	case *ssa.Lookup:
		return isString(x.X.Type())
	case *ssa.Call:
		if b, ok := x.Common().Value.(*ssa.Builtin); ok {
			return b.Name() == "len" || b.Name() == "cap"
		}
		return false
	}
	return false
}


// trySpeculate attempts the conversion for the If ending f.block. On success the frame has
// been moved to the join block with merged phi values.
func (w *Worker) trySpeculate(st *State, f *Frame, ifi *ssa.If, c *Term) (ok bool) {
	if w.e.cfg.Concrete || w.spec {
		return false
	}
	if _, bad := noIfConv.Load(ifi); bad {
		return false
	}
	structural := false
	nframes := len(st.frames)
	defer func() {
		if r := recover(); r != nil {
			w.spec = false
			st.frames = st.frames[:nframes]
			switch r.(type) {
			case specAbort, goPanic, cutErr, reenterErr:
				ok = false
				if structural {
					noIfConv.Store(ifi, true)
				}
				return
			}
			panic(r)
		}
	}()
	w.spec = true
	var leaves []specLeaf
	var join *ssa.BasicBlock
	n := 0
	var walk func(from, b *ssa.BasicBlock, cond *Term)
	walk = func(from, b *ssa.BasicBlock, cond *Term) {
		if len(b.Preds) != 1 {
			// candidate join
			if join == nil {
				join = b
			} else if join != b {
				structural = true
				panic(specAbort{})
			}
			leaves = append(leaves, specLeaf{from, cond})
			if len(leaves) > specMaxLeaves {
				structural = true
				panic(specAbort{})
			}
			return
		}
		for i, in := range b.Instrs {
			if i == len(b.Instrs)-1 {
				break
			}
			if !specPure(in) {
				structural = true
				panic(specAbort{})
			}
			n++
			if n > specMaxInstrs {
				structural = true
				panic(specAbort{})
			}
			if _, isDbg := in.(*ssa.DebugRef); isDbg {
				continue
			}
			f.scratchN = 0
			if !w.exec(st, f, in) {
				panic(specAbort{})
			}
		}
		switch t := b.Instrs[len(b.Instrs)-1].(type) {
		case *ssa.Jump:
			walk(b, b.Succs[0], cond)
		case *ssa.If:
			cv, isT := getVal(f, t.Cond).(*Term)
			if !isT {
				panic(specAbort{})
			}
			walk(b, b.Succs[0], BAnd(cond, cv))
			walk(b, b.Succs[1], BAnd(cond, BNot(cv)))
		default:
			structural = true
			panic(specAbort{})
		}
	}
	blk := f.block
	walk(blk, blk.Succs[0], c)
	walk(blk, blk.Succs[1], BNot(c))
	if join == nil || len(leaves) < 2 {
		structural = true
		panic(specAbort{})
	}
	// merge phis
	var phis []*ssa.Phi
	for _, in := range join.Instrs {
		p, isPhi := in.(*ssa.Phi)
		if !isPhi {
			break
		}
		phis = append(phis, p)
	}
	predIdx := func(p *ssa.BasicBlock) int {
		for i, q := range join.Preds {
			if q == p {
				return i
			}
		}
		panic(specAbort{})
	}
	// a block may appear twice in Preds (both edges of an If to the same block): not handled
	seen := map[*ssa.BasicBlock]bool{}
	for _, l := range leaves {
		if seen[l.pred] {
			structural = true
			panic(specAbort{})
		}
		seen[l.pred] = true
	}
	vals := make([]Value, len(phis))
	for pi, p := range phis {
		var res Value
		for i := len(leaves) - 1; i >= 0; i-- {
			v := getVal(f, p.Edges[predIdx(leaves[i].pred)])
			if res == nil {
				res = v
				continue
			}
			tv, ok1 := v.(*Term)
			tr, ok2 := res.(*Term)
			if ok1 && ok2 && tv.W == tr.W {
				res = Ite(leaves[i].cond, tv, tr)
				continue
			}
			if !sameValue(v, res) {
				panic(specAbort{})
			}
		}
		vals[pi] = res
	}
	w.spec = false
	f.prev = leaves[0].pred
	f.block = join
	for i, p := range phis {
		f.set(p, vals[i])
	}
	f.pc = len(phis)
	w.e.res.mu.Lock()
	w.e.res.IfConv++
	w.e.res.mu.Unlock()
	return true
}

func sameValue(a, b Value) bool {
	switch x := a.(type) {
	case Ptr:
		y, ok := b.(Ptr)
		return ok && x == y
	case SliceV:
		y, ok := b.(SliceV)
		return ok && x == y
	case StrV:
		y, ok := b.(StrV)
		return ok && x == y
	case *Term:
		y, ok := b.(*Term)
		return ok && x == y
	}
	return false
}
