package main

import (
	"fmt"
	"go/types"
	"sync"

	"golang.org/x/tools/go/ssa"
)

// Value is one of: *Term (int/bool/float bits), Ptr, FuncV, TypeV, BoxV, SliceV, StrV,
// IfaceV, StructV, ArrV, Tuple, Opaque.
type Value interface{}

// Ptr is a pointer into an object; Obj==0 is nil. Sym (64-bit) is an extra symbolic
// byte offset known (by a previous bounds check) to lie in [SymLo,SymHi] in steps of SymStep.
type Ptr struct {
	Obj     int
	Off     int64
	Sym     *Term
	SymLo   int64
	SymHi   int64
	SymStep int64
}

func (p Ptr) IsNil() bool { return p.Obj == 0 && p.Sym == nil }

var NilPtr = Ptr{}

type FuncV struct {
	Fn   *ssa.Function
	Bind []Value
	ID   int // identity for closures
}
type TypeV struct{ T types.Type }

// BoxV is the data word of an interface holding a non-pointer-shaped value.
type BoxV struct{ V Value }

type SliceV struct {
	P        Ptr
	Len, Cap int64
}
type StrV struct {
	P   Ptr
	Len int64
}
type IfaceV struct {
	T types.Type // nil => nil interface
	D Value      // unboxed dynamic value
}
type StructV []Value
type ArrV []Value
type Tuple []Value
type Opaque struct{ Why string }

func (o Opaque) String() string { return "opaque(" + o.Why + ")" }

// ---------- layout ----------

var sizes = types.StdSizes{WordSize: 8, MaxAlign: 8}

type LeafKind uint8

const (
	LInt  LeafKind = iota // BV of W bytes (ints, floats)
	LBool                 // Bool, 1 byte
	LPtr                  // pointer-like, 8 bytes
	LWord                 // uintptr / unsafe.Pointer: BV64 or pointer-like
)

type Leaf struct {
	Off int64
	K   LeafKind
	W   int // bytes
}

var (
	leafMu    sync.Mutex
	leafCache = map[types.Type][]Leaf{}
)

func sizeof(t types.Type) int64 { return sizes.Sizeof(t) }

func leavesOf(t types.Type) []Leaf {
	leafMu.Lock()
	if l, ok := leafCache[t]; ok {
		leafMu.Unlock()
		return l
	}
	leafMu.Unlock()
	var out []Leaf
	flatten(t, 0, &out)
	leafMu.Lock()
	leafCache[t] = out
	leafMu.Unlock()
	return out
}

func flatten(t types.Type, base int64, out *[]Leaf) {
	switch u := t.Underlying().(type) {
	case *types.Basic:
		switch {
		case u.Info()&types.IsBoolean != 0:
			*out = append(*out, Leaf{base, LBool, 1})
		case u.Info()&types.IsString != 0:
			*out = append(*out, Leaf{base, LPtr, 8}, Leaf{base + 8, LInt, 8})
		case u.Kind() == types.UnsafePointer:
			*out = append(*out, Leaf{base, LPtr, 8})
		case u.Kind() == types.Uintptr:
			*out = append(*out, Leaf{base, LWord, 8})
		case u.Info()&types.IsComplex != 0:
			w := int(sizeof(t) / 2)
			*out = append(*out, Leaf{base, LInt, w}, Leaf{base + int64(w), LInt, w})
		case u.Kind() == types.UntypedNil:
			*out = append(*out, Leaf{base, LPtr, 8})
		default:
			*out = append(*out, Leaf{base, LInt, int(sizeof(t))})
		}
	case *types.Pointer, *types.Map, *types.Chan, *types.Signature:
		*out = append(*out, Leaf{base, LPtr, 8})
	case *types.Slice:
		*out = append(*out, Leaf{base, LPtr, 8}, Leaf{base + 8, LInt, 8}, Leaf{base + 16, LInt, 8})
	case *types.Interface:
		*out = append(*out, Leaf{base, LPtr, 8}, Leaf{base + 8, LPtr, 8})
	case *types.Struct:
		fields := make([]*types.Var, u.NumFields())
		for i := range fields {
			fields[i] = u.Field(i)
		}
		offs := sizes.Offsetsof(fields)
		for i, f := range fields {
			flatten(f.Type(), base+offs[i], out)
		}
	case *types.Array:
		es := sizeof(u.Elem())
		for i := int64(0); i < u.Len(); i++ {
			flatten(u.Elem(), base+i*es, out)
		}
	case *types.Tuple:
		panic("flatten tuple")
	default:
		panic(fmt.Sprintf("flatten %T %s", u, t))
	}
}

func fieldOffset(st *types.Struct, i int) int64 {
	fields := make([]*types.Var, st.NumFields())
	for k := range fields {
		fields[k] = st.Field(k)
	}
	return sizes.Offsetsof(fields)[i]
}

func isFloat(t types.Type) bool {
	b, ok := t.Underlying().(*types.Basic)
	return ok && b.Info()&types.IsFloat != 0
}
func isSigned(t types.Type) bool {
	b, ok := t.Underlying().(*types.Basic)
	return ok && b.Info()&types.IsInteger != 0 && b.Info()&types.IsUnsigned == 0
}
func isString(t types.Type) bool {
	b, ok := t.Underlying().(*types.Basic)
	return ok && b.Info()&types.IsString != 0
}
func isBoolT(t types.Type) bool {
	b, ok := t.Underlying().(*types.Basic)
	return ok && b.Info()&types.IsBoolean != 0
}
func intWidth(t types.Type) int {
	b, ok := t.Underlying().(*types.Basic)
	if !ok {
		return 0
	}
	if b.Info()&(types.IsInteger|types.IsFloat) == 0 {
		return 0
	}
	if b.Kind() == types.UntypedInt || b.Kind() == types.UntypedRune {
		return 64
	}
	if b.Kind() == types.UntypedFloat {
		return 64
	}
	return int(sizeof(t)) * 8
}

// pointerShaped reports whether an interface holding t stores the value directly.
func pointerShaped(t types.Type) bool {
	switch u := t.Underlying().(type) {
	case *types.Pointer, *types.Map, *types.Chan, *types.Signature:
		return true
	case *types.Basic:
		return u.Kind() == types.UnsafePointer
	}
	return false
}

// zeroValue builds the zero register value of type t.
func zeroValue(t types.Type) Value {
	switch u := t.Underlying().(type) {
	case *types.Basic:
		switch {
		case u.Info()&types.IsBoolean != 0:
			return TFalse
		case u.Info()&types.IsString != 0:
			return StrV{}
		case u.Kind() == types.UnsafePointer || u.Kind() == types.UntypedNil:
			return NilPtr
		case u.Info()&types.IsComplex != 0:
			w := int(sizeof(t) / 2 * 8)
			return StructV{Const(w, 0), Const(w, 0)}
		default:
			return Const(intWidth(t), 0)
		}
	case *types.Pointer, *types.Map, *types.Chan, *types.Signature:
		return NilPtr
	case *types.Slice:
		return SliceV{}
	case *types.Interface:
		return IfaceV{}
	case *types.Struct:
		s := make(StructV, u.NumFields())
		for i := range s {
			s[i] = zeroValue(u.Field(i).Type())
		}
		return s
	case *types.Array:
		a := make(ArrV, u.Len())
		for i := range a {
			a[i] = zeroValue(u.Elem())
		}
		return a
	case *types.Tuple:
		tu := make(Tuple, u.Len())
		for i := range tu {
			tu[i] = zeroValue(u.At(i).Type())
		}
		return tu
	}
	panic(fmt.Sprintf("zeroValue %s", t))
}
