package main

import (
	"fmt"
	"os"
	"runtime"
	"go/constant"
	"go/token"
	"go/types"
	"math"
	"sort"
	"strings"
	"sync"
	"time"

	"golang.org/x/tools/go/ssa"
)

type RunConfig struct {
	Solver        string
	TimeoutMs     int
	MaxSteps      int // per path
	MaxPaths      int
	ConcretizeCap int
	Workers       int
	Concrete      bool // no solver: symbolic branch => cut (used for init)
	Deadline      time.Time
}

type Violation struct {
	Harness string
	Label   string
	Kind    string // assert | panic
	Vector  []VecEntry
	Msg     string
	Stack   []string
}

type HarnessResult struct {
	mu           sync.Mutex
	Name         string
	Paths        int
	Branches     int
	Steps        int
	Asserts      int
	AssertsUnsat int
	AssertsUnk   int
	Cuts         map[string]int
	Reached      map[string]*VecSample
	Violations   []*Violation
	Funcs        map[string]bool
	Stubs        map[string]bool
	Stats        SolverStats
	PathCap      bool
	Timeout      bool
	UnknownFeas  int
	Merges       int
	IfConv       int
	WitnessOK    int
	WitnessBad   []string
	Samples      []*VecSample
	Wall         float64
}

type VecSample struct {
	Harness string     `json:"harness"`
	Marker  string     `json:"marker,omitempty"`
	Vector  []VecEntry `json:"vector"`
}

type Engine struct {
	ifConv    bool
	noMerging bool
	prog    *ssa.Program
	base    *Heap
	globals map[*ssa.Global]int
	cfg     RunConfig
	res     *HarnessResult
	ndPkg   *ssa.Package
	initOK  map[*ssa.Package]bool

	qmu     sync.Mutex
	queue   []*State
	idle    int
	active  int
	qcond   *sync.Cond
	stopped bool
}

type Worker struct {
	spec     bool // speculative if-conversion in progress: no forking, no solver
	subDepth int
	e     *Engine
	sol   *Solver
	local []*State
	funcs map[string]bool
	stubs map[string]bool
}

// ---------- exploration driver ----------

func (e *Engine) Explore(init *State) {
	e.qcond = sync.NewCond(&e.qmu)
	e.queue = []*State{init}
	n := e.cfg.Workers
	if n < 1 {
		n = 1
	}
	var wg sync.WaitGroup
	for i := 0; i < n; i++ {
		wg.Add(1)
		go func() {
			defer wg.Done()
			w := &Worker{e: e, funcs: map[string]bool{}, stubs: map[string]bool{}}
			if !e.cfg.Concrete {
				w.sol = NewSolver(e.cfg.Solver, e.cfg.TimeoutMs)
				defer w.sol.Close()
			}
			w.loop()
			e.res.mu.Lock()
			for k := range w.funcs {
				e.res.Funcs[k] = true
			}
			for k := range w.stubs {
				e.res.Stubs[k] = true
			}
			if w.sol != nil {
				s := w.sol.Stats
				r := &e.res.Stats
				r.Queries += s.Queries
				r.Sat += s.Sat
				r.Unsat += s.Unsat
				r.Unknown += s.Unknown
				r.Errors += s.Errors
				r.Dur += s.Dur
			}
			e.res.mu.Unlock()
		}()
	}
	wg.Wait()
}

func (w *Worker) push(st *State) {
	e := w.e
	if w.subDepth > 0 {
		w.local = append(w.local, st)
		return
	}
	// donate to the shared queue when somebody is idle
	e.qmu.Lock()
	if e.idle > 0 && len(e.queue) < e.idle {
		e.queue = append(e.queue, st)
		e.qcond.Signal()
		e.qmu.Unlock()
		return
	}
	e.qmu.Unlock()
	w.local = append(w.local, st)
}

func (e *Engine) isStopped() bool {
	e.qmu.Lock()
	defer e.qmu.Unlock()
	return e.stopped
}

func (w *Worker) loop() {
	e := w.e
	holding := false
	for {
		var st *State
		if e.isStopped() {
			w.local = nil
		}
		if n := len(w.local); n > 0 {
			st = w.local[n-1]
			w.local = w.local[:n-1]
		} else {
			e.qmu.Lock()
			if holding {
				e.active--
				holding = false
			}
			for st == nil {
				if e.stopped {
					e.qmu.Unlock()
					return
				}
				if n := len(e.queue); n > 0 {
					st = e.queue[n-1]
					e.queue = e.queue[:n-1]
					e.active++
					holding = true
					break
				}
				if e.active == 0 {
					e.qcond.Broadcast()
					e.qmu.Unlock()
					return
				}
				e.idle++
				e.qcond.Wait()
				e.idle--
			}
			e.qmu.Unlock()
		}
		w.runPath(st)
		e.res.mu.Lock()
		stop := (e.cfg.MaxPaths > 0 && e.res.Paths >= e.cfg.MaxPaths)
		if stop {
			e.res.PathCap = true
		}
		if !e.cfg.Deadline.IsZero() && time.Now().After(e.cfg.Deadline) {
			stop = true
			e.res.Timeout = true
		}
		e.res.mu.Unlock()
		if stop {
			e.qmu.Lock()
			e.stopped = true
			e.qcond.Broadcast()
			e.qmu.Unlock()
			return
		}
	}
}

func (w *Worker) cut(st *State, why string) {
	r := w.e.res
	r.mu.Lock()
	r.Cuts[why]++
	r.Steps += st.steps
	r.mu.Unlock()
	if debugCuts {
		fmt.Printf("CUT %s: %s\n  at %s\n", r.Name, why, strings.Join(st.stack(), "\n     "))
	}
}

var debugCuts = false
var strictEngine = os.Getenv("SYMEX_STRICT") != ""
var noIfConvFlag = os.Getenv("SYMEX_NOIFCONV") != ""

func (st *State) stack() []string {
	var out []string
	for i := len(st.frames) - 1; i >= 0 && len(out) < 12; i-- {
		f := st.frames[i]
		pos := ""
		if f.block != nil && f.pc < len(f.block.Instrs) {
			if p := f.block.Instrs[f.pc].Pos(); p.IsValid() {
				pos = f.fn.Prog.Fset.Position(p).String()
			}
		}
		out = append(out, f.fn.String()+" "+pos)
	}
	return out
}

func (w *Worker) runPath(st *State) {
	e := w.e
	defer func() {
		r := recover()
		if r == nil {
			return
		}
		switch x := r.(type) {
		case cutErr:
			if x.why != "INFEASIBLE" {
				w.cut(st, x.why)
			}
		case forkedErr:
		case doneErr:
			e.res.mu.Lock()
			e.res.Paths++
			e.res.Steps += st.steps
			e.res.Branches += st.branches
			e.res.mu.Unlock()
			w.pathDone(st)
		default:
			if re, isRT := r.(runtime.Error); isRT && !strictEngine {
				// a value of an unexpected shape reached an instruction: unsupported, cut the path
				w.cut(st, "engine: unsupported value shape ("+re.Error()+")")
				return
			}
			fmt.Printf("ENGINE PANIC in %s: %v\n  at %s\n", e.res.Name, r, strings.Join(st.stack(), "\n     "))
			panic(r)
		}
	}()
	for {
		if st.steps > e.cfg.MaxSteps {
			panic(cutErr{"step budget exceeded (unwinding failure)"})
		}
		if st.steps&0x3ff == 0 && !e.cfg.Deadline.IsZero() && time.Now().After(e.cfg.Deadline) {
			e.res.mu.Lock()
			e.res.Timeout = true
			e.res.mu.Unlock()
			e.qmu.Lock()
			e.stopped = true
			e.qcond.Broadcast()
			e.qmu.Unlock()
			panic(cutErr{"INFEASIBLE"}) // abandon silently; the harness is marked as timed out
		}
		w.step(st)
	}
}

// ---------- deciding and concretising ----------

func (w *Worker) symsOf(st *State) []*Term { return st.syms }

// feasible checks pc ∧ c. On sat the state's model is replaced when adopt is set.
func (w *Worker) check(st *State, c *Term) (string, Model) {
	if w.sol == nil {
		panic(cutErr{"symbolic condition in concrete mode"})
	}
	if e := w.e; w.subDepth == 0 && (e.isStopped() || (!e.cfg.Deadline.IsZero() && time.Now().After(e.cfg.Deadline))) {
		e.res.mu.Lock()
		if !e.res.PathCap {
			e.res.Timeout = true
		}
		e.res.mu.Unlock()
		e.qmu.Lock()
		e.stopped = true
		e.qcond.Broadcast()
		e.qmu.Unlock()
		panic(cutErr{"INFEASIBLE"}) // abandon silently; the harness is marked as timed out
	}
	return w.sol.Check(st.pc.Slice(), c, st.syms)
}

func (st *State) evalModel(t *Term) (uint64, bool) {
	if st.model == nil {
		return 0, false
	}
	return Eval(t, st.model), true
}

// decide returns the truth value of c on this path, forking the state when both
// outcomes are feasible (the sibling re-executes the current instruction).
func (w *Worker) decide(st *State, c *Term) bool {
	if c.IsConst() {
		return c.Op == OpTrue
	}
	if v, ok := st.known[c]; ok {
		return v != 0
	}
	if w.spec {
		panic(specAbort{})
	}
	tOK, fOK, tm, fm := w.bothSides(st, c)
	switch {
	case tOK && fOK:
		sib := st.clone()
		sib.known[c] = 0
		sib.assume(BNot(c))
		sib.model = fm
		sib.branches++
		w.push(sib)
		st.known[c] = 1
		st.assume(c)
		st.model = tm
		st.branches++
		return true
	case tOK:
		st.known[c] = 1
		return true
	case fOK:
		st.known[c] = 0
		return false
	}
	panic(cutErr{"INFEASIBLE"})
}

// bothSides computes feasibility of c and ¬c under the path condition.
func (w *Worker) bothSides(st *State, c *Term) (tOK, fOK bool, tm, fm Model) {
	mv, have := st.evalModel(c)
	if have && mv != 0 {
		tOK, tm = true, st.model
	} else if have {
		fOK, fm = true, st.model
	}
	if !tOK {
		r, m := w.check(st, c)
		switch r {
		case "sat":
			tOK, tm = true, m
		case "unknown":
			tOK, tm = true, nil
			st.approx = true
			w.noteUnknown()
		}
	}
	if !fOK {
		r, m := w.check(st, BNot(c))
		switch r {
		case "sat":
			fOK, fm = true, m
		case "unknown":
			fOK, fm = true, nil
			st.approx = true
			w.noteUnknown()
		}
	}
	return
}

func (w *Worker) noteUnknown() {
	w.e.res.mu.Lock()
	w.e.res.UnknownFeas++
	w.e.res.mu.Unlock()
}

// concreteInt returns the concrete signed value of t on this path, forking over
// all feasible values (capped) when t is symbolic.
func (st *State) concreteInt(t *Term, why string) int64 {
	if t.IsConst() {
		return sext64(t.ConstVal(), t.W)
	}
	if v, ok := st.known[t]; ok {
		return sext64(v, t.W)
	}
	w := st.ext["worker"].(*Worker)
	return w.concretize(st, t, why)
}

func (w *Worker) concretize(st *State, t *Term, why string) int64 {
	if w.spec {
		panic(specAbort{})
	}
	capK := w.e.cfg.ConcretizeCap
	var vals []uint64
	var models []Model
	excl := TTrue
	for len(vals) <= capK {
		var m Model
		if len(vals) == 0 && st.model != nil {
			m = st.model
		} else {
			r, mm := w.check(st, excl)
			if r == "unsat" {
				break
			}
			if r != "sat" {
				panic(cutErr{"solver unknown while concretising " + why})
			}
			m = mm
		}
		v := Eval(t, m)
		vals = append(vals, v)
		models = append(models, m)
		excl = BAnd(excl, BNot(Eq(t, Const(t.W, v))))
	}
	if len(vals) > capK {
		panic(cutErr{fmt.Sprintf("concretisation cap exceeded (%s)", why)})
	}
	if len(vals) == 0 {
		panic(cutErr{"INFEASIBLE"})
	}
	for i := 1; i < len(vals); i++ {
		sib := st.clone()
		sib.known[t] = vals[i]
		sib.assume(Eq(t, Const(t.W, vals[i])))
		sib.model = models[i]
		sib.branches++
		w.push(sib)
	}
	st.known[t] = vals[0]
	if len(vals) > 1 {
		st.assume(Eq(t, Const(t.W, vals[0])))
		st.branches++
	}
	st.model = models[0]
	return sext64(vals[0], t.W)
}

// ---------- stepping ----------

func (w *Worker) step(st *State) {
	st.steps++
	if st.ext == nil {
		st.ext = map[string]interface{}{}
	}
	st.ext["worker"] = w
	if st.pan != nil {
		w.unwind(st)
		return
	}
	f := st.top()
	in := f.block.Instrs[f.pc]
	defer func() {
		if r := recover(); r != nil {
			switch x := r.(type) {
			case goPanic:
				f.scratch, f.scratchN = nil, 0
				st.pan = &PanicInfo{val: x.val, msg: x.msg}
				return
			case reenterErr:
				return
			}
			panic(r)
		}
	}()
	f.scratchN = 0
	advance := w.exec(st, f, in)
	if advance {
		f.scratch = nil
		f.pc++
	}
}

func (w *Worker) unwind(st *State) {
	if len(st.frames) == 0 {
		panic("unwind with no frames")
	}
	f := st.top()
	if f.rk == retTop && len(f.defers) == 0 {
		if st.sub {
			panic(cutErr{"callee panics"})
		}
		// panic escapes the harness
		w.escapedPanic(st)
		panic(doneErr{})
	}
	if len(f.defers) > 0 {
		d := f.defers[len(f.defers)-1]
		f.defers = f.defers[:len(f.defers)-1]
		f.panic = st.pan
		st.pan = nil
		w.pushCall(st, d.fn, d.args, retUnwind, 0)
		st.top().isDefer = true
		return
	}
	st.frames = st.frames[:len(st.frames)-1]
	if len(st.frames) == 0 {
		w.escapedPanic(st)
		panic(doneErr{})
	}
	// a frame that was itself a deferred call during an older panic: the new panic supersedes
	nf := st.top()
	if f.rk == retUnwind {
		nf.panic = nil
	}
}

func jump(f *Frame, to *ssa.BasicBlock) {
	f.prev = f.block
	f.block = to
	f.pc = 0
	// evaluate phis in parallel
	var vals []Value
	var phis []*ssa.Phi
	for _, in := range to.Instrs {
		p, ok := in.(*ssa.Phi)
		if !ok {
			break
		}
		phis = append(phis, p)
	}
	if len(phis) == 0 {
		return
	}
	pi := -1
	for i, p := range to.Preds {
		if p == f.prev {
			pi = i
			break
		}
	}
	for _, p := range phis {
		vals = append(vals, getVal(f, p.Edges[pi]))
	}
	for i, p := range phis {
		f.set(p, vals[i])
	}
	f.pc = len(phis)
}

func constValue(c *ssa.Const) Value {
	t := c.Type()
	if c.Value == nil {
		return zeroValue(t)
	}
	if _, ok := t.Underlying().(*types.Interface); ok {
		return zeroValue(t)
	}
	b, ok := t.Underlying().(*types.Basic)
	if !ok {
		if _, isTP := t.(*types.TypeParam); isTP {
			panic(cutErr{"const of type parameter"})
		}
		panic(fmt.Sprintf("const of type %s", t))
	}
	switch {
	case b.Info()&types.IsBoolean != 0:
		return Bool(constant.BoolVal(c.Value))
	case b.Info()&types.IsString != 0:
		return constStr(constant.StringVal(c.Value))
	case b.Info()&types.IsInteger != 0:
		w := intWidth(t)
		v := constant.ToInt(c.Value)
		if u, ok := constant.Uint64Val(v); ok {
			return Const(w, u)
		}
		i, _ := constant.Int64Val(v)
		return Const(w, uint64(i))
	case b.Info()&types.IsFloat != 0:
		f, _ := constant.Float64Val(c.Value)
		if intWidth(t) == 32 {
			return Const(32, uint64(math.Float32bits(float32(f))))
		}
		return Const(64, math.Float64bits(f))
	case b.Info()&types.IsComplex != 0:
		re, _ := constant.Float64Val(constant.Real(c.Value))
		im, _ := constant.Float64Val(constant.Imag(c.Value))
		if sizeof(t) == 8 {
			return StructV{Const(32, uint64(math.Float32bits(float32(re)))), Const(32, uint64(math.Float32bits(float32(im))))}
		}
		return StructV{Const(64, math.Float64bits(re)), Const(64, math.Float64bits(im))}
	case b.Kind() == types.UnsafePointer || b.Kind() == types.UntypedNil:
		return NilPtr
	}
	panic(fmt.Sprintf("const %s", c))
}

var theEngine *Engine // globals map is immutable after setup; used by getVal

func getVal(f *Frame, v ssa.Value) Value {
	switch x := v.(type) {
	case *ssa.Const:
		return constValue(x)
	case *ssa.Function:
		return FuncV{Fn: x}
	case *ssa.Global:
		id, ok := theEngine.globals[x]
		if !ok {
			panic(cutErr{"unknown global " + x.String()})
		}
		return Ptr{Obj: id}
	case *ssa.Builtin:
		return x
	}
	i, ok := f.info.idx[v]
	if !ok {
		panic(fmt.Sprintf("unbound value %s in %s", v.Name(), f.fn))
	}
	r := f.env[i]
	if r == nil {
		panic(fmt.Sprintf("unset value %s (%T) in %s", v.Name(), v, f.fn))
	}
	return r
}

func needTerm(v Value, what string) *Term {
	switch x := v.(type) {
	case *Term:
		return x
	case Opaque:
		panic(cutErr{"opaque value used: " + x.Why})
	case Ptr:
		if x.IsNil() {
			return Const(64, 0)
		}
		panic(cutErr{"pointer used as integer in " + what})
	}
	panic(cutErr{fmt.Sprintf("%s: expected scalar, got %T", what, v)})
}

func chkOpaque(vs ...Value) {
	for _, v := range vs {
		if o, ok := v.(Opaque); ok {
			panic(cutErr{"opaque value used: " + o.Why})
		}
	}
}

// exec runs one instruction; returns whether pc should advance.
func (w *Worker) exec(st *State, f *Frame, in ssa.Instruction) bool {
	switch x := in.(type) {
	case *ssa.DebugRef:
	case *ssa.Phi:
		// handled in jump; reaching here means block entry without jump (entry block has no phis)
		panic("stray phi")
	case *ssa.BinOp:
		f.set(x, w.binop(st, x.Op, getVal(f, x.X), getVal(f, x.Y), x.X.Type(), x.Y.Type(), x.Type()))
	case *ssa.UnOp:
		f.set(x, w.unop(st, f, x))
	case *ssa.Convert:
		f.set(x, w.convert(st, f, getVal(f, x.X), x.X.Type(), x.Type()))
	case *ssa.ChangeType:
		f.set(x, getVal(f, x.X))
	case *ssa.ChangeInterface:
		f.set(x, getVal(f, x.X))
	case *ssa.MultiConvert:
		f.set(x, w.convert(st, f, getVal(f, x.X), x.X.Type(), x.Type()))
	case *ssa.Alloc:
		el := x.Type().Underlying().(*types.Pointer).Elem()
		o := st.heap.alloc(sizeof(el), el, "alloc:"+x.Comment)
		f.set(x, Ptr{Obj: o.ID})
	case *ssa.Store:
		addr := getVal(f, x.Addr)
		chkOpaque(addr)
		st.store(addr.(Ptr), x.Val.Type(), getVal(f, x.Val))
	case *ssa.FieldAddr:
		base := getVal(f, x.X)
		chkOpaque(base)
		p := base.(Ptr)
		if p.IsNil() {
			panic(goPanic{msg: "nil pointer dereference (field address)"})
		}
		stt := x.X.Type().Underlying().(*types.Pointer).Elem().Underlying().(*types.Struct)
		p.Off += fieldOffset(stt, x.Field)
		f.set(x, p)
	case *ssa.Field:
		v := getVal(f, x.X)
		chkOpaque(v)
		f.set(x, v.(StructV)[x.Field])
	case *ssa.IndexAddr:
		f.set(x, w.indexAddr(st, f, x))
	case *ssa.Index:
		f.set(x, w.index(st, f, x))
	case *ssa.Slice:
		f.set(x, w.slice(st, f, x))
	case *ssa.Extract:
		t := getVal(f, x.Tuple)
		chkOpaque(t)
		f.set(x, t.(Tuple)[x.Index])
	case *ssa.If:
		c := needTerm(getVal(f, x.Cond), "if")
		w.branch(st, f, c)
		return false
	case *ssa.Jump:
		jump(f, f.block.Succs[0])
		return false
	case *ssa.Return:
		w.doReturn(st, f, x)
		return false
	case *ssa.Call:
		return w.call(st, f, x)
	case *ssa.Defer:
		cc := x.Common()
		fn, args := w.resolveCallee(st, f, cc)
		if fn == nil {
			// builtin deferred (e.g. recover/print/close): ignore close/print
			return true
		}
		if isNopCallee(fn) {
			return true
		}
		f.defers = append(f.defers, deferred{fn: fn, args: args})
	case *ssa.RunDefers:
		if n := len(f.defers); n > 0 {
			d := f.defers[n-1]
			f.defers = f.defers[:n-1]
			w.pushCall(st, d.fn, d.args, retDiscard, 0)
			st.top().isDefer = true
			return false
		}
	case *ssa.Panic:
		v := getVal(f, x.X)
		panic(goPanic{val: v, msg: "explicit panic"})
	case *ssa.MakeInterface:
		v := getVal(f, x.X)
		if o, ok := v.(Opaque); ok {
			f.set(x, o)
		} else {
			f.set(x, IfaceV{T: x.X.Type(), D: v})
		}
	case *ssa.MakeClosure:
		bind := make([]Value, len(x.Bindings))
		for i, b := range x.Bindings {
			bind[i] = getVal(f, b)
		}
		f.set(x, FuncV{Fn: x.Fn.(*ssa.Function), Bind: bind, ID: newObjID()})
	case *ssa.MakeSlice:
		n := st.concreteInt(needTerm(getVal(f, x.Len), "make len"), "make len")
		c := st.concreteInt(needTerm(getVal(f, x.Cap), "make cap"), "make cap")
		if n < 0 || c < n {
			panic(goPanic{msg: "makeslice: len out of range"})
		}
		if c > 1<<20 {
			panic(cutErr{"makeslice too large"})
		}
		es := sizeof(x.Type().Underlying().(*types.Slice).Elem())
		o := st.heap.alloc(c*es, nil, "makeslice")
		f.set(x, SliceV{P: Ptr{Obj: o.ID}, Len: n, Cap: c})
	case *ssa.MakeMap:
		o := st.heap.alloc(-1, nil, "map")
		o.Kind = ObjMap
		o.MapT = x.Type().Underlying().(*types.Map)
		f.set(x, Ptr{Obj: o.ID})
	case *ssa.MapUpdate:
		w.mapUpdate(st, getVal(f, x.Map), getVal(f, x.Key), getVal(f, x.Value))
	case *ssa.Lookup:
		f.set(x, w.lookup(st, f, x))
	case *ssa.TypeAssert:
		f.set(x, w.typeAssert(st, f, x))
	case *ssa.SliceToArrayPointer:
		v := getVal(f, x.X)
		chkOpaque(v)
		s := v.(SliceV)
		n := x.Type().Underlying().(*types.Pointer).Elem().Underlying().(*types.Array).Len()
		if s.Len < n {
			panic(goPanic{msg: "slice to array pointer: length too short"})
		}
		if s.P.IsNil() {
			f.set(x, NilPtr)
		} else {
			f.set(x, s.P)
		}
	case *ssa.Range:
		f.set(x, w.rangeInit(st, f, x))
	case *ssa.Next:
		return w.next(st, f, x)
	case *ssa.Go, *ssa.Select, *ssa.Send, *ssa.MakeChan:
		panic(cutErr{fmt.Sprintf("unsupported instruction %T (concurrency)", in)})
	default:
		panic(cutErr{fmt.Sprintf("unsupported instruction %T", in)})
	}
	return true
}

func (w *Worker) branch(st *State, f *Frame, c *Term) {
	if c.IsConst() {
		if c.Op == OpTrue {
			jump(f, f.block.Succs[0])
		} else {
			jump(f, f.block.Succs[1])
		}
		return
	}
	if v, ok := st.known[c]; ok {
		if v != 0 {
			jump(f, f.block.Succs[0])
		} else {
			jump(f, f.block.Succs[1])
		}
		return
	}
	if ifi, isIf := f.block.Instrs[f.pc].(*ssa.If); isIf && w.e.ifConv && w.trySpeculate(st, f, ifi, c) {
		return
	}
	tOK, fOK, tm, fm := w.bothSides(st, c)
	switch {
	case tOK && fOK:
		sib := st.clone()
		sib.assume(BNot(c))
		sib.model = fm
		sib.branches++
		sf := sib.top()
		jump(sf, sf.block.Succs[1])
		w.push(sib)
		st.assume(c)
		st.model = tm
		st.branches++
		jump(f, f.block.Succs[0])
	case tOK:
		jump(f, f.block.Succs[0])
	case fOK:
		jump(f, f.block.Succs[1])
	default:
		panic(cutErr{"INFEASIBLE"})
	}
}

func (w *Worker) doReturn(st *State, f *Frame, x *ssa.Return) {
	var rv Value
	switch len(x.Results) {
	case 0:
	case 1:
		rv = getVal(f, x.Results[0])
	default:
		t := make(Tuple, len(x.Results))
		for i, r := range x.Results {
			t[i] = getVal(f, r)
		}
		rv = t
	}
	w.popFrame(st, f, rv)
}

func (w *Worker) popFrame(st *State, f *Frame, rv Value) {
	st.frames = st.frames[:len(st.frames)-1]
	switch f.rk {
	case retTop:
		st.retVal = rv
		panic(doneErr{})
	case retNormal:
		c := st.top()
		in := c.block.Instrs[c.pc]
		if v, ok := in.(ssa.Value); ok && rv != nil {
			c.set(v, rv)
		}
		c.scratch = nil
		c.pc++
	case retDiscard:
	case retScratch:
		c := st.top()
		if c.scratch == nil {
			c.scratch = map[int]Value{}
		}
		if rv == nil {
			rv = Tuple{}
		}
		c.scratch[f.scratchK] = rv
	case retUnwind:
		c := st.top()
		if c.recovered {
			c.recovered = false
			c.panic = nil
			// resume c at its Recover block, or return zero values
			if c.fn.Recover != nil {
				c.block = c.fn.Recover
				c.prev = nil
				c.pc = 0
				return
			}
			res := c.fn.Signature.Results()
			var zr Value
			switch res.Len() {
			case 0:
			case 1:
				zr = zeroValue(res.At(0).Type())
			default:
				zr = zeroValue(res)
			}
			w.popFrame(st, c, zr)
			return
		}
		st.pan = c.panic
		c.panic = nil
	}
}

// callSync runs fn(args) to completion before the current instruction continues
// (the instruction is re-executed and finds the memoised result).
func (w *Worker) callSync(st *State, f *Frame, fn Value, args []Value) Value {
	k := f.scratchN
	f.scratchN++
	if v, ok := f.scratch[k]; ok {
		return v
	}
	w.pushCall(st, fn, args, retScratch, k)
	panic(reenterErr{})
}

func (w *Worker) pushCall(st *State, fnv Value, args []Value, rk retKind, key int) {
	fv, ok := fnv.(FuncV)
	if !ok {
		if p, isP := fnv.(Ptr); isP && p.IsNil() {
			panic(goPanic{msg: "call of nil function"})
		}
		panic(cutErr{fmt.Sprintf("call of non-function value %T", fnv)})
	}
	if len(st.frames) > 400 {
		panic(cutErr{"call depth exceeded"})
	}
	nf := newFrame(fv.Fn, args, fv.Bind, rk)
	nf.scratchK = key
	w.funcs[fv.Fn.String()] = true
	st.frames = append(st.frames, nf)
}

// ---------- operators ----------

func (w *Worker) unop(st *State, f *Frame, x *ssa.UnOp) Value {
	v := getVal(f, x.X)
	if o, ok := v.(Opaque); ok {
		if x.Op == token.MUL {
			panic(cutErr{"load through opaque pointer: " + o.Why})
		}
		return o
	}
	switch x.Op {
	case token.MUL:
		p, ok := v.(Ptr)
		if !ok {
			panic(cutErr{fmt.Sprintf("load through %T", v)})
		}
		return st.load(p, x.Type())
	case token.NOT:
		return BNot(needTerm(v, "not"))
	case token.SUB:
		t := needTerm(v, "neg")
		if isFloat(x.Type()) {
			return FNeg(t)
		}
		return Neg(t)
	case token.XOR:
		return Not(needTerm(v, "xor"))
	case token.ARROW:
		panic(cutErr{"channel receive"})
	}
	panic(cutErr{"unop " + x.Op.String()})
}

func shiftCount(cnt *Term, w int) *Term {
	if cnt.W == w {
		return cnt
	}
	if cnt.W < w {
		return ZExt(cnt, w)
	}
	// saturate at w
	return Ite(Ule(Const(cnt.W, uint64(w)), cnt), Const(w, uint64(w)), Extract(cnt, w-1, 0))
}

func (w *Worker) binop(st *State, op token.Token, a, b Value, ta, tb, tr types.Type) Value {
	if o, ok := a.(Opaque); ok {
		return o
	}
	if o, ok := b.(Opaque); ok {
		return o
	}
	switch x := a.(type) {
	case *Term:
		y, ok := b.(*Term)
		if !ok {
			if p, isP := b.(Ptr); isP {
				return w.ptrArith(st, op, b, a, p, true)
			}
			panic(cutErr{fmt.Sprintf("binop %s on *Term and %T", op, b)})
		}
		if x.W == 0 {
			switch op {
			case token.EQL:
				return Eq(x, y)
			case token.NEQ:
				return BNot(Eq(x, y))
			case token.AND, token.LAND:
				return BAnd(x, y)
			case token.OR, token.LOR:
				return BOr(x, y)
			case token.XOR:
				return BNot(Eq(x, y))
			}
			panic(cutErr{"bool binop " + op.String()})
		}
		if isFloat(ta) {
			switch op {
			case token.ADD:
				return FArith(OpFAdd, x, y)
			case token.SUB:
				return FArith(OpFSub, x, y)
			case token.MUL:
				return FArith(OpFMul, x, y)
			case token.QUO:
				return FArith(OpFDiv, x, y)
			case token.EQL:
				return FCmp(OpFEq, x, y)
			case token.NEQ:
				return BNot(FCmp(OpFEq, x, y))
			case token.LSS:
				return FCmp(OpFLt, x, y)
			case token.LEQ:
				return FCmp(OpFLe, x, y)
			case token.GTR:
				return FCmp(OpFLt, y, x)
			case token.GEQ:
				return FCmp(OpFLe, y, x)
			}
			panic(cutErr{"float binop " + op.String()})
		}
		signed := isSigned(ta)
		switch op {
		case token.ADD:
			return Add(x, y)
		case token.SUB:
			return Sub(x, y)
		case token.MUL:
			return Mul(x, y)
		case token.QUO, token.REM:
			if w.decide(st, Eq(y, Const(y.W, 0))) {
				panic(goPanic{msg: "integer divide by zero"})
			}
			if op == token.QUO {
				if signed {
					return SDiv(x, y)
				}
				return UDiv(x, y)
			}
			if signed {
				return SRem(x, y)
			}
			return URem(x, y)
		case token.AND:
			return And(x, y)
		case token.OR:
			return Or(x, y)
		case token.XOR:
			return Xor(x, y)
		case token.AND_NOT:
			return And(x, Not(y))
		case token.SHL, token.SHR:
			if isSigned(tb) {
				if w.decide(st, Slt(y, Const(y.W, 0))) {
					panic(goPanic{msg: "negative shift amount"})
				}
			}
			c := shiftCount(y, x.W)
			if op == token.SHL {
				return Shl(x, c)
			}
			if signed {
				return AShr(x, c)
			}
			return LShr(x, c)
		case token.EQL:
			return Eq(x, y)
		case token.NEQ:
			return BNot(Eq(x, y))
		case token.LSS:
			if signed {
				return Slt(x, y)
			}
			return Ult(x, y)
		case token.LEQ:
			if signed {
				return Sle(x, y)
			}
			return Ule(x, y)
		case token.GTR:
			if signed {
				return Slt(y, x)
			}
			return Ult(y, x)
		case token.GEQ:
			if signed {
				return Sle(y, x)
			}
			return Ule(y, x)
		}
		panic(cutErr{"int binop " + op.String()})
	case StrV:
		y := b.(StrV)
		switch op {
		case token.ADD:
			bs := append(append([]*Term(nil), st.strBytes(x)...), st.strBytes(y)...)
			return st.newString(bs)
		case token.EQL:
			return w.strEq(st, x, y)
		case token.NEQ:
			return BNot(w.strEq(st, x, y))
		case token.LSS:
			return w.strLess(st, x, y, false)
		case token.LEQ:
			return w.strLess(st, x, y, true)
		case token.GTR:
			return w.strLess(st, y, x, false)
		case token.GEQ:
			return w.strLess(st, y, x, true)
		}
	case Ptr:
		if isIntegerType(ta) || isIntegerType(tb) {
			if op != token.EQL && op != token.NEQ {
				return w.ptrArith(st, op, a, b, x, false)
			}
		}
		switch op {
		case token.EQL:
			return w.valuesEqual(st, a, b, ta)
		case token.NEQ:
			return BNot(w.valuesEqual(st, a, b, ta))
		}
		return w.ptrArith(st, op, a, b, x, false)
	}
	switch op {
	case token.EQL:
		return w.valuesEqual(st, a, b, ta)
	case token.NEQ:
		return BNot(w.valuesEqual(st, a, b, ta))
	}
	panic(cutErr{fmt.Sprintf("binop %s on %T", op, a)})
}

func isIntegerType(t types.Type) bool {
	b, ok := t.Underlying().(*types.Basic)
	return ok && b.Info()&types.IsInteger != 0
}

// ptrArith: uintptr arithmetic with pointer provenance.
func (w *Worker) ptrArith(st *State, op token.Token, a, b Value, p Ptr, swapped bool) Value {
	other := b
	if pb, ok := other.(Ptr); ok {
		if op == token.SUB && pb.Obj == p.Obj && pb.Sym == nil && p.Sym == nil {
			return Const(64, uint64(p.Off-pb.Off))
		}
		if p.IsNil() && pb.IsNil() {
			return Const(64, 0)
		}
		if p.IsNil() && op == token.ADD {
			return pb
		}
		if pb.IsNil() {
			other = Const(64, 0)
		} else {
			panic(cutErr{"arithmetic between pointers"})
		}
	}
	k, ok := other.(*Term)
	if !ok {
		panic(cutErr{fmt.Sprintf("pointer arithmetic with %T", other)})
	}
	if p.IsNil() {
		z := Const(64, 0)
		switch op {
		case token.ADD:
			return k
		case token.SUB:
			if swapped {
				return k
			}
			return Neg(k)
		case token.AND:
			return z
		case token.OR, token.XOR:
			return k
		}
	}
	if p.Sym != nil {
		panic(cutErr{"arithmetic on symbolic pointer"})
	}
	switch op {
	case token.ADD:
		d := st.concreteInt(k, "pointer offset")
		p.Off += d
		return p
	case token.SUB:
		if swapped {
			panic(cutErr{"int - pointer"})
		}
		d := st.concreteInt(k, "pointer offset")
		p.Off -= d
		return p
	case token.XOR, token.OR:
		// internal/abi.NoEscape: unsafe.Pointer(uintptr(p) ^ 0)
		if k.IsConst() && k.C == 0 {
			return p
		}
	case token.AND:
		// alignment tests: p & (2^k-1)
		if k.IsConst() && k.C < 8 {
			return Const(64, uint64(p.Off)&k.C)
		}
	case token.REM:
		if k.IsConst() && (k.C == 2 || k.C == 4 || k.C == 8) {
			return Const(64, uint64(p.Off)%k.C)
		}
	}
	panic(cutErr{"unsupported pointer arithmetic " + op.String()})
}

func (w *Worker) strEq(st *State, x, y StrV) *Term {
	if x.Len != y.Len {
		return TFalse
	}
	xb, yb := st.strBytes(x), st.strBytes(y)
	r := TTrue
	for i := range xb {
		r = BAnd(r, Eq(xb[i], yb[i]))
	}
	return r
}

func (w *Worker) strLess(st *State, x, y StrV, orEq bool) *Term {
	xb, yb := st.strBytes(x), st.strBytes(y)
	n := len(xb)
	if len(yb) < n {
		n = len(yb)
	}
	// tail: all common bytes equal
	var r *Term
	if orEq {
		r = Bool(len(xb) <= len(yb))
	} else {
		r = Bool(len(xb) < len(yb))
	}
	for i := n - 1; i >= 0; i-- {
		r = Ite(Eq(xb[i], yb[i]), r, Ult(xb[i], yb[i]))
	}
	return r
}

func sameType(a, b types.Type) bool { return types.Identical(a, b) }

// valuesEqual implements == for comparable values.
func (w *Worker) valuesEqual(st *State, a, b Value, t types.Type) *Term {
	chkOpaque(a, b)
	switch x := a.(type) {
	case *Term:
		y, ok := b.(*Term)
		if !ok {
			if p, isP := b.(Ptr); isP && x.IsConst() {
				return Bool(p.IsNil() && x.ConstVal() == 0)
			}
			panic(cutErr{"comparing integer with pointer"})
		}
		if isFloat(t) {
			return FCmp(OpFEq, x, y)
		}
		return Eq(x, y)
	case Ptr:
		switch y := b.(type) {
		case Ptr:
			if x.Sym != nil || y.Sym != nil {
				if x.Sym != nil {
					x = Ptr{Obj: x.Obj, Off: x.Off + st.concreteInt(x.Sym, "pointer compare")}
				}
				if y.Sym != nil {
					y = Ptr{Obj: y.Obj, Off: y.Off + st.concreteInt(y.Sym, "pointer compare")}
				}
			}
			if x.Obj == 0 || y.Obj == 0 {
				return Bool(x.Obj == y.Obj)
			}
			return Bool(x.Obj == y.Obj && x.Off == y.Off)
		case FuncV, TypeV, BoxV:
			return TFalse
		case *Term:
			return w.valuesEqual(st, b, a, t)
		}
	case FuncV:
		if p, ok := b.(Ptr); ok {
			_ = p
			return TFalse
		}
		if y, ok := b.(FuncV); ok {
			return Bool(x.Fn == y.Fn && x.ID == y.ID)
		}
	case TypeV:
		if y, ok := b.(TypeV); ok {
			return Bool(sameType(x.T, y.T))
		}
		return TFalse
	case BoxV:
		if _, ok := b.(Ptr); ok {
			return TFalse
		}
		panic(cutErr{"comparison of boxed interface data words"})
	case StrV:
		return w.strEq(st, x, b.(StrV))
	case IfaceV:
		y, ok := b.(IfaceV)
		if !ok {
			panic(cutErr{fmt.Sprintf("iface compared with %T", b)})
		}
		if x.T == nil || y.T == nil {
			return Bool(x.T == nil && y.T == nil)
		}
		if !sameType(x.T, y.T) {
			return TFalse
		}
		if !types.Comparable(x.T) {
			panic(goPanic{msg: "comparing uncomparable type " + x.T.String()})
		}
		return w.valuesEqual(st, x.D, y.D, x.T)
	case StructV:
		y := b.(StructV)
		stt := t.Underlying().(*types.Struct)
		r := TTrue
		for i := range x {
			if stt.Field(i).Name() == "_" {
				continue
			}
			r = BAnd(r, w.valuesEqual(st, x[i], y[i], stt.Field(i).Type()))
		}
		return r
	case ArrV:
		y := b.(ArrV)
		et := t.Underlying().(*types.Array).Elem()
		r := TTrue
		for i := range x {
			r = BAnd(r, w.valuesEqual(st, x[i], y[i], et))
		}
		return r
	case SliceV:
		// only comparison with nil is legal
		if y, ok := b.(SliceV); ok {
			if y.P.IsNil() && y.Len == 0 && y.Cap == 0 {
				return Bool(x.P.IsNil())
			}
			if x.P.IsNil() && x.Len == 0 && x.Cap == 0 {
				return Bool(y.P.IsNil())
			}
		}
	}
	panic(cutErr{fmt.Sprintf("valuesEqual %T %T", a, b)})
}

func (w *Worker) convert(st *State, f *Frame, v Value, from, to types.Type) Value {
	if o, ok := v.(Opaque); ok {
		return o
	}
	fu, tu := from.Underlying(), to.Underlying()
	switch x := v.(type) {
	case *Term:
		tb, ok := tu.(*types.Basic)
		if !ok {
			// uintptr -> unsafe.Pointer handled below; int -> pointer
			if _, isP := tu.(*types.Pointer); isP && x.IsConst() && x.ConstVal() == 0 {
				return NilPtr
			}
			panic(cutErr{"convert scalar to " + to.String()})
		}
		if tb.Info()&types.IsString != 0 {
			// string(rune)
			if x.IsConst() {
				return constStr(string(rune(sext64(x.C, x.W))))
			}
			r := w.callSync(st, f, w.helper("runeToString"), []Value{SExt(ZExt(x, max(x.W, 32)), 32)})
			return r
		}
		if tb.Kind() == types.UnsafePointer {
			if x.IsConst() && x.ConstVal() == 0 {
				return NilPtr
			}
			panic(cutErr{"integer converted to unsafe.Pointer"})
		}
		ff, tf := isFloat(from), isFloat(to)
		tw := intWidth(to)
		switch {
		case ff && tf:
			return FCvt(x, tw)
		case ff:
			return FToI(x, isSigned(to), tw)
		case tf:
			return IToF(x, isSigned(from), tw)
		}
		if tw == 0 {
			panic(cutErr{"convert to " + to.String()})
		}
		if tw <= x.W {
			return Extract(x, tw-1, 0)
		}
		if isSigned(from) {
			return SExt(x, tw)
		}
		return ZExt(x, tw)
	case Ptr, FuncV, TypeV, BoxV:
		return x
	case StrV:
		switch tt := tu.(type) {
		case *types.Slice:
			if eb, ok := tt.Elem().Underlying().(*types.Basic); ok && eb.Kind() == types.Uint8 {
				bs := st.strBytes(x)
				p := st.newBytes(bs, "[]byte(string)")
				return SliceV{P: p, Len: x.Len, Cap: x.Len}
			}
			// []rune(s)
			return w.callSync(st, f, w.helper("stringToRunes"), []Value{x})
		case *types.Basic:
			return x
		}
	case SliceV:
		if isString(to) {
			et := fu.(*types.Slice).Elem().Underlying().(*types.Basic)
			if et.Kind() == types.Uint8 {
				return st.newString(st.bytesOf(x.P, x.Len))
			}
			return w.callSync(st, f, w.helper("runesToString"), []Value{x})
		}
		if _, ok := tu.(*types.Slice); ok {
			return x
		}
		if _, ok := tu.(*types.Pointer); ok { // slice to array pointer (Go 1.17)
			return x.P
		}
		if at, ok := tu.(*types.Array); ok { // slice to array (Go 1.20)
			if x.Len < at.Len() {
				panic(goPanic{msg: "slice to array: length too short"})
			}
			return st.load(x.P, to)
		}
	case StructV, ArrV, IfaceV:
		return x
	}
	panic(cutErr{fmt.Sprintf("convert %T from %s to %s", v, from, to)})
}

func (w *Worker) helper(name string) Value {
	fn := w.e.ndPkg.Func(name)
	if fn == nil {
		panic("missing nd helper " + name)
	}
	return FuncV{Fn: fn}
}

// ---------- indexing / slicing ----------

func (w *Worker) boundsCheck(st *State, idx *Term, n int64, msg string) {
	if idx.IsConst() {
		v := sext64(idx.ConstVal(), idx.W)
		if v < 0 || v >= n {
			panic(goPanic{msg: fmt.Sprintf("%s [%d] with length %d", msg, v, n)})
		}
		return
	}
	i64 := idx
	if i64.W < 64 {
		i64 = ZExt(i64, 64) // Go index of narrower unsigned type; signed narrow handled by caller
	}
	inb := Ult(i64, Const(64, uint64(n)))
	if !w.decide(st, inb) {
		panic(goPanic{msg: msg + " (symbolic index)"})
	}
}

func idx64(v Value, t types.Type) *Term {
	x := needTerm(v, "index")
	if x.W < 64 {
		if isSigned(t) {
			return SExt(x, 64)
		}
		return ZExt(x, 64)
	}
	return x
}

func (w *Worker) indexAddr(st *State, f *Frame, x *ssa.IndexAddr) Value {
	base := getVal(f, x.X)
	chkOpaque(base)
	idx := idx64(getVal(f, x.Index), x.Index.Type())
	var p Ptr
	var n int64
	var et types.Type
	switch b := base.(type) {
	case SliceV:
		p, n = b.P, b.Len
		et = x.X.Type().Underlying().(*types.Slice).Elem()
	case Ptr:
		if b.IsNil() {
			panic(goPanic{msg: "nil pointer dereference (index address)"})
		}
		at := x.X.Type().Underlying().(*types.Pointer).Elem().Underlying().(*types.Array)
		p, n, et = b, at.Len(), at.Elem()
	default:
		panic(cutErr{fmt.Sprintf("indexaddr on %T", base)})
	}
	w.boundsCheck(st, idx, n, "index out of range")
	es := sizeof(et)
	if idx.IsConst() {
		p.Off += int64(idx.C) * es
		return p
	}
	if p.Sym != nil {
		k := st.concreteInt(p.Sym, "nested symbolic index")
		p = Ptr{Obj: p.Obj, Off: p.Off + k}
	}
	ls := leavesOf(et)
	if len(ls) == 1 && (ls[0].K == LInt || ls[0].K == LBool) && n <= 1024 {
		p.Sym = Mul(idx, Const(64, uint64(es)))
		p.SymLo, p.SymHi, p.SymStep = 0, (n-1)*es, es
		return p
	}
	k := st.concreteInt(idx, "index")
	p.Off += k * es
	return p
}

func (w *Worker) index(st *State, f *Frame, x *ssa.Index) Value {
	base := getVal(f, x.X)
	chkOpaque(base)
	idx := idx64(getVal(f, x.Index), x.Index.Type())
	switch b := base.(type) {
	case StrV:
		w.boundsCheck(st, idx, b.Len, "index out of range")
		if idx.IsConst() {
			return st.bytesOf(Ptr{Obj: b.P.Obj, Off: b.P.Off + int64(idx.C)}, 1)[0]
		}
		p := b.P
		p.Sym, p.SymLo, p.SymHi, p.SymStep = idx, 0, b.Len-1, 1
		return st.load(p, types.Typ[types.Uint8])
	case ArrV:
		w.boundsCheck(st, idx, int64(len(b)), "index out of range")
		if idx.IsConst() {
			return b[idx.C]
		}
		// symbolic index into array value: ite over scalar elements
		vals := make([]*Term, len(b))
		ks := make([]int64, len(b))
		for i := range b {
			t, ok := b[i].(*Term)
			if !ok {
				k := st.concreteInt(idx, "array value index")
				return b[k]
			}
			vals[i], ks[i] = t, int64(i)
		}
		return iteRuns(idx, ks, vals)
	}
	panic(cutErr{fmt.Sprintf("index on %T", base)})
}

func (w *Worker) slice(st *State, f *Frame, x *ssa.Slice) Value {
	base := getVal(f, x.X)
	chkOpaque(base)
	var p Ptr
	var ln, cp, es int64
	isStr := false
	switch b := base.(type) {
	case SliceV:
		p, ln, cp = b.P, b.Len, b.Cap
		es = sizeof(x.X.Type().Underlying().(*types.Slice).Elem())
	case StrV:
		p, ln, cp, es, isStr = b.P, b.Len, b.Len, 1, true
	case Ptr:
		if b.IsNil() {
			panic(goPanic{msg: "nil pointer dereference (slice of array pointer)"})
		}
		at := x.X.Type().Underlying().(*types.Pointer).Elem().Underlying().(*types.Array)
		p, ln, cp, es = b, at.Len(), at.Len(), sizeof(at.Elem())
	default:
		panic(cutErr{fmt.Sprintf("slice of %T", base)})
	}
	lo, hi, mx := int64(0), ln, cp
	if x.Low != nil {
		lo = st.concreteInt(idx64(getVal(f, x.Low), x.Low.Type()), "slice low")
	}
	if x.High != nil {
		hi = st.concreteInt(idx64(getVal(f, x.High), x.High.Type()), "slice high")
	}
	if x.Max != nil {
		mx = st.concreteInt(idx64(getVal(f, x.Max), x.Max.Type()), "slice max")
	}
	if lo < 0 || hi < lo || mx < hi || mx > cp {
		panic(goPanic{msg: fmt.Sprintf("slice bounds out of range [%d:%d:%d] with capacity %d", lo, hi, mx, cp)})
	}
	if p.Sym != nil {
		k := st.concreteInt(p.Sym, "slice of symbolic pointer")
		p = Ptr{Obj: p.Obj, Off: p.Off + k}
	}
	np := p
	if !np.IsNil() {
		np.Off += lo * es
	}
	if isStr {
		if hi-lo == 0 {
			return StrV{}
		}
		return StrV{P: np, Len: hi - lo}
	}
	return SliceV{P: np, Len: hi - lo, Cap: mx - lo}
}

// ---------- type assertions ----------

func implements(t types.Type, it *types.Interface) bool {
	return types.Implements(t, it)
}

func (w *Worker) typeAssert(st *State, f *Frame, x *ssa.TypeAssert) Value {
	v := getVal(f, x.X)
	chkOpaque(v)
	iv, ok := v.(IfaceV)
	if !ok {
		panic(cutErr{fmt.Sprintf("type assert on %T", v)})
	}
	okv := false
	var res Value
	if it, isI := x.AssertedType.Underlying().(*types.Interface); isI {
		if iv.T != nil && implements(iv.T, it) {
			okv, res = true, iv
		} else {
			res = IfaceV{}
		}
	} else {
		if iv.T != nil && sameType(iv.T, x.AssertedType) {
			okv, res = true, iv.D
		} else {
			res = zeroValue(x.AssertedType)
		}
	}
	if x.CommaOk {
		return Tuple{res, Bool(okv)}
	}
	if !okv {
		have := "nil"
		if iv.T != nil {
			have = iv.T.String()
		}
		panic(goPanic{msg: "interface conversion: interface is " + have + ", not " + x.AssertedType.String()})
	}
	return res
}

// ---------- maps ----------

func (w *Worker) mapObj(st *State, m Value) *Obj {
	chkOpaque(m)
	p, ok := m.(Ptr)
	if !ok {
		panic(cutErr{fmt.Sprintf("map value %T", m)})
	}
	if p.IsNil() {
		return nil
	}
	o := st.heap.get(p.Obj)
	if o.Kind != ObjMap {
		panic(cutErr{"not a map object"})
	}
	return o
}

func (w *Worker) mapFind(st *State, o *Obj, key Value) int {
	if o == nil {
		return -1
	}
	kt := o.MapT.Key()
	for i, e := range o.Map {
		eq := w.valuesEqual(st, e.K, key, kt)
		if w.decide(st, eq) {
			return i
		}
	}
	return -1
}

func (w *Worker) mapUpdate(st *State, m, k, v Value) {
	o := w.mapObj(st, m)
	if o == nil {
		panic(goPanic{msg: "assignment to entry in nil map"})
	}
	i := w.mapFind(st, o, k)
	mo := st.heap.mut(o.ID)
	if i >= 0 {
		mo.Map[i].V = v
	} else {
		mo.Map = append(mo.Map, MapEntry{k, v})
	}
}

func (w *Worker) lookup(st *State, f *Frame, x *ssa.Lookup) Value {
	base := getVal(f, x.X)
	chkOpaque(base)
	if s, ok := base.(StrV); ok {
		idx := idx64(getVal(f, x.Index), x.Index.Type())
		w.boundsCheck(st, idx, s.Len, "index out of range")
		p := s.P
		if idx.IsConst() {
			p.Off += int64(idx.C)
			return st.load(p, types.Typ[types.Uint8])
		}
		p.Sym, p.SymLo, p.SymHi, p.SymStep = idx, 0, s.Len-1, 1
		return st.load(p, types.Typ[types.Uint8])
	}
	o := w.mapObj(st, base)
	vt := x.X.Type().Underlying().(*types.Map).Elem()
	i := w.mapFind(st, o, getVal(f, x.Index))
	var v Value
	if i >= 0 {
		v = o.Map[i].V
	} else {
		v = zeroValue(vt)
	}
	if x.CommaOk {
		return Tuple{v, Bool(i >= 0)}
	}
	return v
}

// ---------- range ----------

type IterV struct {
	Str     *StrV
	Entries []MapEntry
	Pos     int64
}

func (w *Worker) rangeInit(st *State, f *Frame, x *ssa.Range) Value {
	v := getVal(f, x.X)
	chkOpaque(v)
	switch b := v.(type) {
	case StrV:
		return IterV{Str: &b}
	case Ptr:
		o := w.mapObj(st, b)
		if o == nil {
			return IterV{}
		}
		es := append([]MapEntry(nil), o.Map...)
		// deterministic iteration for concrete integer/string keys mirrors no real order; keep insertion order
		return IterV{Entries: es}
	}
	panic(cutErr{fmt.Sprintf("range over %T", v)})
}

func (w *Worker) next(st *State, f *Frame, x *ssa.Next) bool {
	it := getVal(f, x.Iter).(IterV)
	if x.IsString {
		s := *it.Str
		if it.Pos >= s.Len {
			f.set(x, Tuple{TFalse, Const(64, 0), Const(32, 0)})
			return true
		}
		r := w.callSync(st, f, w.helper("decodeRuneAt"), []Value{s, Const(64, uint64(it.Pos))}).(Tuple)
		size := st.concreteInt(r[1].(*Term), "rune size")
		f.set(x, Tuple{TTrue, Const(64, uint64(it.Pos)), r[0]})
		it.Pos += size
		f.set(x.Iter, it)
		return true
	}
	tt := x.Type().(*types.Tuple)
	if int(it.Pos) >= len(it.Entries) {
		f.set(x, Tuple{TFalse, zeroValue(tt.At(1).Type()), zeroValue(tt.At(2).Type())})
		return true
	}
	e := it.Entries[it.Pos]
	f.set(x, Tuple{TTrue, e.K, e.V})
	it.Pos++
	f.set(x.Iter, it)
	return true
}

func sortedKeys(m map[string]int) []string {
	ks := make([]string, 0, len(m))
	for k := range m {
		ks = append(ks, k)
	}
	sort.Strings(ks)
	return ks
}
