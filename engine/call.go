package main

import (
	"fmt"
	"go/types"
	"strings"

	"golang.org/x/tools/go/ssa"
)

const ndPath = "google.golang.org/protobuf/internal/zzverif/nd"

// resolveCallee evaluates the callee and arguments of a call.
func (w *Worker) resolveCallee(st *State, f *Frame, cc *ssa.CallCommon) (Value, []Value) {
	args := make([]Value, 0, len(cc.Args)+1)
	if cc.IsInvoke() {
		rv := getVal(f, cc.Value)
		chkOpaque(rv)
		iv, ok := rv.(IfaceV)
		if !ok {
			panic(cutErr{fmt.Sprintf("invoke on %T", rv)})
		}
		if iv.T == nil {
			panic(goPanic{msg: "nil interface method call " + cc.Method.Name()})
		}
		fn := w.e.prog.LookupMethod(iv.T, cc.Method.Pkg(), cc.Method.Name())
		if fn == nil {
			panic(cutErr{"method not found: " + iv.T.String() + "." + cc.Method.Name()})
		}
		args = append(args, iv.D)
		for _, a := range cc.Args {
			args = append(args, getVal(f, a))
		}
		return FuncV{Fn: fn}, args
	}
	for _, a := range cc.Args {
		args = append(args, getVal(f, a))
	}
	if _, ok := cc.Value.(*ssa.Builtin); ok {
		return nil, args
	}
	fv := getVal(f, cc.Value)
	chkOpaque(fv)
	return fv, args
}

func (w *Worker) call(st *State, f *Frame, x *ssa.Call) bool {
	cc := x.Common()
	if b, ok := cc.Value.(*ssa.Builtin); ok {
		args := make([]Value, len(cc.Args))
		for i, a := range cc.Args {
			args[i] = getVal(f, a)
		}
		r := w.builtin(st, f, b, args, cc)
		if r != nil {
			f.set(x, r)
		}
		return true
	}
	fnv, args := w.resolveCallee(st, f, cc)
	fv, ok := fnv.(FuncV)
	if !ok {
		if p, isP := fnv.(Ptr); isP && p.IsNil() {
			panic(goPanic{msg: "call of nil function"})
		}
		panic(cutErr{fmt.Sprintf("call of %T", fnv)})
	}
	name := fv.Fn.String()
	if fv.Fn.Origin() != nil {
		name = fv.Fn.Origin().String()
	}
	if st.sub && isNdCall(name) {
		panic(cutErr{"nd call inside merged callee"})
	}
	if h, ok := intrinsics[name]; ok {
		w.stubs[name] = true
		r, done := h(w, st, f, x, fv, args)
		if done {
			if r != nil {
				f.set(x, r)
			}
			return true
		}
		return false
	}
	if rd, ok := redirects[name]; ok {
		w.stubs[name+" => nd."+rd] = true
		w.pushCall(st, w.helper(rd), args, retNormal, 0)
		return false
	}
	if fv.Fn.Blocks == nil {
		if w.e.cfg.Concrete {
			// lenient init: unknown external => opaque result
			return w.opaqueResult(f, x, "external "+name)
		}
		panic(cutErr{"no body (external/assembly): " + name})
	}
	if w.e.cfg.Concrete && (!w.e.initAllowed(fv.Fn) || initSkip[name]) {
		return w.opaqueResult(f, x, "not executed during init: "+name)
	}
	if !w.e.cfg.Concrete && !w.e.noMerging && mergeCandidate(fv.Fn) {
		if v, ok := w.tryMerge(st, fv, args); ok {
			f.set(x, v)
			return true
		}
	}
	w.pushCall(st, fv, args, retNormal, 0)
	return false
}

func (w *Worker) opaqueResult(f *Frame, x *ssa.Call, why string) bool {
	res := x.Common().Signature().Results()
	switch res.Len() {
	case 0:
	case 1:
		f.set(x, Opaque{why})
	default:
		t := make(Tuple, res.Len())
		for i := range t {
			t[i] = Opaque{why}
		}
		f.set(x, t)
	}
	return true
}

// ---------- builtins ----------

func (w *Worker) builtin(st *State, f *Frame, b *ssa.Builtin, args []Value, cc *ssa.CallCommon) Value {
	switch b.Name() {
	case "len":
		chkOpaque(args[0])
		switch a := args[0].(type) {
		case SliceV:
			return Const(64, uint64(a.Len))
		case StrV:
			return Const(64, uint64(a.Len))
		case Ptr:
			if t, ok := cc.Args[0].Type().Underlying().(*types.Map); ok {
				_ = t
				o := w.mapObj(st, a)
				if o == nil {
					return Const(64, 0)
				}
				return Const(64, uint64(len(o.Map)))
			}
			if pt, ok := cc.Args[0].Type().Underlying().(*types.Pointer); ok {
				return Const(64, uint64(pt.Elem().Underlying().(*types.Array).Len()))
			}
		case ArrV:
			return Const(64, uint64(len(a)))
		}
		panic(cutErr{fmt.Sprintf("len of %T", args[0])})
	case "cap":
		chkOpaque(args[0])
		switch a := args[0].(type) {
		case SliceV:
			return Const(64, uint64(a.Cap))
		case ArrV:
			return Const(64, uint64(len(a)))
		case Ptr:
			if pt, ok := cc.Args[0].Type().Underlying().(*types.Pointer); ok {
				return Const(64, uint64(pt.Elem().Underlying().(*types.Array).Len()))
			}
		}
		panic(cutErr{"cap"})
	case "append":
		return w.doAppend(st, args, cc)
	case "copy":
		chkOpaque(args[0], args[1])
		dst := args[0].(SliceV)
		es := sizeof(cc.Args[0].Type().Underlying().(*types.Slice).Elem())
		var sp Ptr
		var sl int64
		switch s := args[1].(type) {
		case SliceV:
			sp, sl = s.P, s.Len
		case StrV:
			sp, sl = s.P, s.Len
		}
		n := dst.Len
		if sl < n {
			n = sl
		}
		if n > 0 {
			st.memmove(dst.P, sp, n*es)
		}
		return Const(64, uint64(n))
	case "delete":
		o := w.mapObj(st, args[0])
		if o == nil {
			return nil
		}
		i := w.mapFind(st, o, args[1])
		if i >= 0 {
			mo := st.heap.mut(o.ID)
			mo.Map = append(append([]MapEntry(nil), mo.Map[:i]...), mo.Map[i+1:]...)
		}
		return nil
	case "clear":
		switch a := args[0].(type) {
		case Ptr:
			o := w.mapObj(st, a)
			if o != nil {
				st.heap.mut(o.ID).Map = nil
			}
		case SliceV:
			et := cc.Args[0].Type().Underlying().(*types.Slice).Elem()
			es := sizeof(et)
			for i := int64(0); i < a.Len; i++ {
				st.store(Ptr{Obj: a.P.Obj, Off: a.P.Off + i*es}, et, zeroValue(et))
			}
		}
		return nil
	case "print", "println":
		return nil
	case "recover":
		// only meaningful when called directly by a deferred function during unwinding
		if f.isDefer && len(st.frames) >= 2 {
			par := st.frames[len(st.frames)-2]
			if par.panic != nil {
				v := par.panic.val
				msg := par.panic.msg
				par.panic = nil
				par.recovered = true
				if v == nil {
					return IfaceV{T: types.Typ[types.String], D: constStr("runtime error: " + msg)}
				}
				return v
			}
		}
		return IfaceV{}
	case "min", "max":
		r := needTerm(args[0], "min/max")
		t := cc.Args[0].Type()
		if isFloat(t) || isString(t) {
			panic(cutErr{"min/max on non-integers"})
		}
		for _, a := range args[1:] {
			y := needTerm(a, "min/max")
			var lt *Term
			if isSigned(t) {
				lt = Slt(y, r)
			} else {
				lt = Ult(y, r)
			}
			if b.Name() == "min" {
				r = Ite(lt, y, r)
			} else {
				r = Ite(lt, r, y)
			}
		}
		return r
	case "ssa:wrapnilchk":
		if p, ok := args[0].(Ptr); ok && p.IsNil() {
			panic(goPanic{msg: "value method called using nil pointer"})
		}
		return args[0]
	case "String": // unsafe.String
		chkOpaque(args[0], args[1])
		n := st.concreteInt(needTerm(args[1], "unsafe.String len"), "unsafe.String len")
		if n == 0 {
			return StrV{}
		}
		return StrV{P: args[0].(Ptr), Len: n}
	case "StringData":
		chkOpaque(args[0])
		return args[0].(StrV).P
	case "Slice": // unsafe.Slice
		chkOpaque(args[0], args[1])
		n := st.concreteInt(needTerm(args[1], "unsafe.Slice len"), "unsafe.Slice len")
		p := args[0].(Ptr)
		if p.IsNil() {
			return SliceV{}
		}
		return SliceV{P: p, Len: n, Cap: n}
	case "SliceData":
		chkOpaque(args[0])
		return args[0].(SliceV).P
	case "Add": // unsafe.Add
		chkOpaque(args[0], args[1])
		p := args[0].(Ptr)
		d := st.concreteInt(needTerm(args[1], "unsafe.Add"), "unsafe.Add")
		p.Off += d
		return p
	case "real":
		return args[0].(StructV)[0]
	case "imag":
		return args[0].(StructV)[1]
	case "complex":
		return StructV{args[0], args[1]}
	case "close":
		return nil
	}
	panic(cutErr{"builtin " + b.Name()})
}

func (w *Worker) doAppend(st *State, args []Value, cc *ssa.CallCommon) Value {
	chkOpaque(args[0], args[1])
	dst := args[0].(SliceV)
	es := sizeof(cc.Args[0].Type().Underlying().(*types.Slice).Elem())
	var sp Ptr
	var sl int64
	switch s := args[1].(type) {
	case SliceV:
		sp, sl = s.P, s.Len
	case StrV:
		sp, sl = s.P, s.Len
	default:
		panic(cutErr{fmt.Sprintf("append src %T", args[1])})
	}
	if sl == 0 {
		return dst
	}
	n := dst.Len + sl
	if n <= dst.Cap {
		st.memmove(Ptr{Obj: dst.P.Obj, Off: dst.P.Off + dst.Len*es}, sp, sl*es)
		return SliceV{P: dst.P, Len: n, Cap: dst.Cap}
	}
	o := st.heap.alloc(n*es, nil, "append")
	np := Ptr{Obj: o.ID}
	if dst.Len > 0 {
		st.memmove(np, dst.P, dst.Len*es)
	}
	st.memmove(Ptr{Obj: o.ID, Off: dst.Len * es}, sp, sl*es)
	return SliceV{P: np, Len: n, Cap: n}
}

// memmove copies n bytes of cells from src to dst (handles overlap by snapshotting).
func (st *State) memmove(dst, src Ptr, n int64) {
	if n == 0 {
		return
	}
	if dst.Sym != nil {
		dst = Ptr{Obj: dst.Obj, Off: dst.Off + st.concreteInt(dst.Sym, "memmove dst")}
	}
	if src.Sym != nil {
		src = Ptr{Obj: src.Obj, Off: src.Off + st.concreteInt(src.Sym, "memmove src")}
	}
	so := st.deref(src)
	st.deref(dst)
	type item struct {
		off int64
		c   Cell
	}
	var items []item
	covered := make([]bool, n)
	for k := src.Off - 7; k < src.Off+n; k++ {
		c, ok := so.Cells[k]
		if !ok {
			continue
		}
		end := k + int64(c.W)
		if end <= src.Off {
			continue
		}
		if k >= src.Off && end <= src.Off+n {
			items = append(items, item{k - src.Off, c})
			for i := k; i < end; i++ {
				covered[i-src.Off] = true
			}
		} else {
			// straddles the boundary: copy the inside bytes individually
			for i := k; i < end; i++ {
				if i >= src.Off && i < src.Off+n {
					items = append(items, item{i - src.Off, Cell{1, st.loadByte(so, i)}})
					covered[i-src.Off] = true
				}
			}
		}
	}
	// untouched bytes
	for i := int64(0); i < n; i++ {
		if !covered[i] {
			if so.Lazy != nil || so.OpaqueBg {
				items = append(items, item{i, Cell{1, st.loadByte(so, src.Off+i)}})
			} else {
				items = append(items, item{i, Cell{1, Const(8, 0)}})
			}
		}
	}
	for _, it := range items {
		l := Leaf{0, LInt, int(it.c.W)}
		switch it.c.V.(type) {
		case Ptr, FuncV, TypeV, BoxV:
			l.K = LPtr
		case *Term:
			if it.c.V.(*Term).W == 0 {
				l.K = LBool
			}
		}
		st.storeLeaf(dst.Obj, dst.Off+it.off, l, it.c.V)
	}
}

// ---------- intrinsics ----------

type intrinsic func(w *Worker, st *State, f *Frame, x *ssa.Call, fv FuncV, args []Value) (Value, bool)

var intrinsics = map[string]intrinsic{}
var redirects = map[string]string{
	"internal/bytealg.IndexByte":       "bytealgIndexByte",
	"internal/bytealg.IndexByteString": "bytealgIndexByteString",
	"internal/bytealg.Equal":           "bytealgEqual",
	"internal/bytealg.Compare":         "bytealgCompare",
	"internal/bytealg.CompareString":   "bytealgCompareString",
	"internal/bytealg.Count":           "bytealgCount",
	"internal/bytealg.CountString":     "bytealgCountString",
	"internal/bytealg.Index":           "bytealgIndex",
	"internal/bytealg.IndexString":     "bytealgIndexString",
	"errors.Is":                        "errorsIs",
	"sort.Slice":                       "sortSlice",
	"sort.SliceStable":                 "sortSlice",
	"sort.Strings":                     "sortStrings",
	"sort.Ints":                        "sortInts",
	"sort.Sort":                        "sortSort",
	"sort.Stable":                      "sortSort",
	"(*sync.Map).Load":                 "syncMapLoad",
	"(*sync.Map).Store":                "syncMapStore",
	"(*sync.Map).LoadOrStore":          "syncMapLoadOrStore",
}

// initSkip lists functions that lenient init does not execute (reflection-driven
// registration of generated types); their results are opaque.
var initSkip = map[string]bool{
	"(google.golang.org/protobuf/internal/filetype.Builder).Build": true,
	"(google.golang.org/protobuf/internal/filedesc.Builder).Build": true,
}

func regIntrinsic(name string, h intrinsic) { intrinsics[name] = h }

var nopIntrinsics = []string{
	"(*sync.Mutex).Lock", "(*sync.Mutex).Unlock", "(*sync.RWMutex).Lock", "(*sync.RWMutex).Unlock",
	"(*sync.RWMutex).RLock", "(*sync.RWMutex).RUnlock", "runtime.KeepAlive", "runtime.SetFinalizer", "runtime.GC",
	"(*sync.Pool).Put", "internal/race.Acquire", "internal/race.Release", "internal/race.ReleaseMerge",
	"internal/race.Disable", "internal/race.Enable", "internal/race.Read", "internal/race.Write",
	"internal/race.ReadRange", "internal/race.WriteRange",
}

var nopSet = func() map[string]bool {
	m := map[string]bool{}
	for _, n := range nopIntrinsics {
		m[n] = true
	}
	return m
}()

func isNopCallee(fn Value) bool {
	fv, ok := fn.(FuncV)
	if !ok {
		return false
	}
	return nopSet[fv.Fn.String()]
}

func ret(v Value) (Value, bool) { return v, true }

func atomicType(name string) types.Type {
	switch {
	case strings.HasSuffix(name, "Int32"):
		return types.Typ[types.Int32]
	case strings.HasSuffix(name, "Uint32"):
		return types.Typ[types.Uint32]
	case strings.HasSuffix(name, "Int64"):
		return types.Typ[types.Int64]
	case strings.HasSuffix(name, "Uint64"):
		return types.Typ[types.Uint64]
	case strings.HasSuffix(name, "Uintptr"):
		return types.Typ[types.Uintptr]
	case strings.HasSuffix(name, "Pointer"):
		return types.Typ[types.UnsafePointer]
	}
	panic(name)
}

func init() {
	for _, sfx := range []string{"Int32", "Uint32", "Int64", "Uint64", "Uintptr", "Pointer"} {
		t := atomicType(sfx)
		regIntrinsic("sync/atomic.Load"+sfx, func(w *Worker, st *State, f *Frame, x *ssa.Call, fv FuncV, a []Value) (Value, bool) {
			chkOpaque(a[0])
			return ret(st.load(a[0].(Ptr), t))
		})
		regIntrinsic("sync/atomic.Store"+sfx, func(w *Worker, st *State, f *Frame, x *ssa.Call, fv FuncV, a []Value) (Value, bool) {
			chkOpaque(a[0])
			st.store(a[0].(Ptr), t, a[1])
			st.atomicWrote(a[0].(Ptr), a[1])
			return nil, true
		})
		regIntrinsic("sync/atomic.Swap"+sfx, func(w *Worker, st *State, f *Frame, x *ssa.Call, fv FuncV, a []Value) (Value, bool) {
			chkOpaque(a[0])
			old := st.load(a[0].(Ptr), t)
			st.store(a[0].(Ptr), t, a[1])
			st.atomicWrote(a[0].(Ptr), a[1])
			return ret(old)
		})
		regIntrinsic("sync/atomic.CompareAndSwap"+sfx, func(w *Worker, st *State, f *Frame, x *ssa.Call, fv FuncV, a []Value) (Value, bool) {
			chkOpaque(a[0])
			old := st.load(a[0].(Ptr), t)
			eq := w.valuesEqual(st, old, a[1], t)
			if w.decide(st, eq) {
				st.store(a[0].(Ptr), t, a[2])
				st.atomicWrote(a[0].(Ptr), a[2])
				return ret(TTrue)
			}
			return ret(TFalse)
		})
		if sfx != "Pointer" {
			regIntrinsic("sync/atomic.Add"+sfx, func(w *Worker, st *State, f *Frame, x *ssa.Call, fv FuncV, a []Value) (Value, bool) {
				chkOpaque(a[0])
				old := needTerm(st.load(a[0].(Ptr), t), "atomic add")
				nv := Add(old, needTerm(a[1], "atomic add"))
				st.store(a[0].(Ptr), t, nv)
				st.atomicWrote(a[0].(Ptr), nil)
				return ret(nv)
			})
			regIntrinsic("sync/atomic.And"+sfx, func(w *Worker, st *State, f *Frame, x *ssa.Call, fv FuncV, a []Value) (Value, bool) {
				old := needTerm(st.load(a[0].(Ptr), t), "atomic and")
				st.store(a[0].(Ptr), t, And(old, needTerm(a[1], "atomic and")))
				st.atomicWrote(a[0].(Ptr), nil)
				return ret(old)
			})
			regIntrinsic("sync/atomic.Or"+sfx, func(w *Worker, st *State, f *Frame, x *ssa.Call, fv FuncV, a []Value) (Value, bool) {
				old := needTerm(st.load(a[0].(Ptr), t), "atomic or")
				st.store(a[0].(Ptr), t, Or(old, needTerm(a[1], "atomic or")))
				st.atomicWrote(a[0].(Ptr), nil)
				return ret(old)
			})
		}
	}
	nop := func(w *Worker, st *State, f *Frame, x *ssa.Call, fv FuncV, a []Value) (Value, bool) { return nil, true }
	for _, n := range nopIntrinsics {
		regIntrinsic(n, nop)
	}
	regIntrinsic("(*sync.Once).Do", func(w *Worker, st *State, f *Frame, x *ssa.Call, fv FuncV, a []Value) (Value, bool) {
		// sequential semantics: run f iff not done; done is set before f runs (no re-entrancy modelled)
		chkOpaque(a[0])
		p := a[0].(Ptr)
		if p.IsNil() {
			panic(goPanic{msg: "nil pointer dereference (sync.Once)"})
		}
		done := needTerm(st.load(p, types.Typ[types.Uint32]), "once.done")
		if w.decide(st, Eq(done, Const(32, 0))) {
			st.store(p, types.Typ[types.Uint32], Const(32, 1))
			w.pushCall(st, a[1], nil, retNormal, 0)
			return nil, false
		}
		return nil, true
	})
	regIntrinsic("(*sync.Mutex).TryLock", func(w *Worker, st *State, f *Frame, x *ssa.Call, fv FuncV, a []Value) (Value, bool) {
		return ret(TTrue)
	})
	regIntrinsic("(*sync.Pool).Get", func(w *Worker, st *State, f *Frame, x *ssa.Call, fv FuncV, a []Value) (Value, bool) {
		chkOpaque(a[0])
		pt := fv.Fn.Params[0].Type().Underlying().(*types.Pointer).Elem()
		stt := pt.Underlying().(*types.Struct)
		for i := 0; i < stt.NumFields(); i++ {
			if stt.Field(i).Name() == "New" {
				p := a[0].(Ptr)
				p.Off += fieldOffset(stt, i)
				nf := st.load(p, stt.Field(i).Type())
				if pp, ok := nf.(Ptr); ok && pp.IsNil() {
					return ret(IfaceV{})
				}
				w.pushCall(st, nf, nil, retNormal, 0)
				return nil, false
			}
		}
		panic(cutErr{"sync.Pool layout"})
	})
	// math/bits
	lenI := func(argW int) intrinsic {
		return func(w *Worker, st *State, f *Frame, x *ssa.Call, fv FuncV, a []Value) (Value, bool) {
			return ret(LenTerm(needTerm(a[0], "bits.Len"), 64))
		}
	}
	lzI := func(argW int) intrinsic {
		return func(w *Worker, st *State, f *Frame, x *ssa.Call, fv FuncV, a []Value) (Value, bool) {
			return ret(Sub(Const(64, uint64(argW)), LenTerm(needTerm(a[0], "bits.LeadingZeros"), 64)))
		}
	}
	regIntrinsic("math/bits.Len", lenI(64))
	regIntrinsic("math/bits.Len64", lenI(64))
	regIntrinsic("math/bits.Len32", lenI(32))
	regIntrinsic("math/bits.Len16", lenI(16))
	regIntrinsic("math/bits.Len8", lenI(8))
	regIntrinsic("math/bits.LeadingZeros", lzI(64))
	regIntrinsic("math/bits.LeadingZeros64", lzI(64))
	regIntrinsic("math/bits.LeadingZeros32", lzI(32))
	regIntrinsic("math/bits.LeadingZeros16", lzI(16))
	regIntrinsic("math/bits.LeadingZeros8", lzI(8))
	tz := func(argW int) intrinsic {
		return func(w *Worker, st *State, f *Frame, x *ssa.Call, fv FuncV, a []Value) (Value, bool) {
			v := needTerm(a[0], "bits.TrailingZeros")
			r := Const(64, uint64(argW))
			for k := argW - 1; k >= 0; k-- {
				r = Ite(Eq(Extract(v, k, k), Const(1, 1)), Const(64, uint64(k)), r)
			}
			return ret(r)
		}
	}
	regIntrinsic("math/bits.TrailingZeros", tz(64))
	regIntrinsic("math/bits.TrailingZeros64", tz(64))
	regIntrinsic("math/bits.TrailingZeros32", tz(32))
	regIntrinsic("math/bits.TrailingZeros16", tz(16))
	regIntrinsic("math/bits.TrailingZeros8", tz(8))
	regIntrinsic("math/bits.Mul64", func(w *Worker, st *State, f *Frame, x *ssa.Call, fv FuncV, a []Value) (Value, bool) {
		p := Mul(ZExt(needTerm(a[0], "Mul64"), 128), ZExt(needTerm(a[1], "Mul64"), 128))
		return ret(Tuple{Extract(p, 127, 64), Extract(p, 63, 0)})
	})
	regIntrinsic("math/bits.Add64", func(w *Worker, st *State, f *Frame, x *ssa.Call, fv FuncV, a []Value) (Value, bool) {
		s := Add(Add(ZExt(needTerm(a[0], "Add64"), 65), ZExt(needTerm(a[1], "Add64"), 65)), ZExt(needTerm(a[2], "Add64"), 65))
		return ret(Tuple{Extract(s, 63, 0), ZExt(Extract(s, 64, 64), 64)})
	})
	// opaque text producers
	opaqueStr := func(w *Worker, st *State, f *Frame, x *ssa.Call, fv FuncV, a []Value) (Value, bool) {
		return ret(Opaque{"formatted text (" + fv.Fn.String() + ")"})
	}
	for _, n := range []string{"fmt.Sprint", "fmt.Sprintln", "strconv.Quote", "fmt.Appendf"} {
		regIntrinsic(n, opaqueStr)
	}
	regIntrinsic("fmt.Sprintf", func(w *Worker, st *State, f *Frame, x *ssa.Call, fv FuncV, a []Value) (Value, bool) {
		// exact model of formattings whose text is data (defval.marshalBytes: Sprintf(`\%03o`, byte)):
		// literal text and the integer verbs %o %x %X %d (optional 0 flag and width) applied to a
		// byte; anything else is opaque text.
		if fs, ok := a[0].(StrV); ok {
			if cs, ok := st.concreteString(fs); ok {
				if args, ok := a[1].(SliceV); ok {
					if out, ok := w.sprintfBytes(st, cs, args); ok {
						return ret(st.newString(out))
					}
				}
			}
		}
		return ret(Opaque{"formatted text (fmt.Sprintf)"})
	})
	regIntrinsic("fmt.Errorf", func(w *Worker, st *State, f *Frame, x *ssa.Call, fv FuncV, a []Value) (Value, bool) {
		o := st.heap.alloc(16, nil, "fmt.Errorf")
		return ret(IfaceV{T: fmtErrorType(w.e.prog), D: Ptr{Obj: o.ID}})
	})
	// error constructors whose only job is formatting a position and message: a fresh
	// non-nil error of the proto error type with opaque text (formatting is not the subject)
	protoErr := func(w *Worker, st *State, f *Frame, x *ssa.Call, fv FuncV, a []Value) (Value, bool) {
		p := w.e.prog.ImportedPackage("google.golang.org/protobuf/internal/errors")
		if p == nil {
			panic(cutErr{"internal/errors not loaded"})
		}
		t := p.Type("prefixError").Type()
		o := st.heap.alloc(sizeof(t), t, "syntax error")
		st.storeAt(o.ID, 0, t, Opaque{"error text"})
		return ret(IfaceV{T: types.NewPointer(t), D: Ptr{Obj: o.ID}})
	}
	regIntrinsic("(*google.golang.org/protobuf/internal/encoding/json.Decoder).newSyntaxError", protoErr)
	regIntrinsic("(*google.golang.org/protobuf/internal/encoding/text.Decoder).newSyntaxError", protoErr)
	regIntrinsic("(*regexp.Regexp).Find", opaqueStr)
	regIntrinsic("internal/bytealg.MakeNoZero", func(w *Worker, st *State, f *Frame, x *ssa.Call, fv FuncV, a []Value) (Value, bool) {
		n := st.concreteInt(needTerm(a[0], "MakeNoZero"), "MakeNoZero len")
		if n < 0 || n > 1<<20 {
			panic(cutErr{"MakeNoZero size"})
		}
		if n == 0 {
			return ret(SliceV{})
		}
		o := st.heap.alloc(n, nil, "MakeNoZero")
		return ret(SliceV{P: Ptr{Obj: o.ID}, Len: n, Cap: n})
	})
	regIntrinsic("os.Getenv", func(w *Worker, st *State, f *Frame, x *ssa.Call, fv FuncV, a []Value) (Value, bool) {
		return ret(StrV{})
	})
}

func fmtErrorType(prog *ssa.Program) types.Type {
	// *errors.errorString stands in for fmt's *wrapError / *fmt.wrapError (only non-nilness and
	// the Error method set matter to callers that do not inspect the text).
	p := prog.ImportedPackage("errors")
	if p == nil {
		panic(cutErr{"package errors not loaded"})
	}
	return types.NewPointer(p.Type("errorString").Type())
}

// sprintfBytes models fmt.Sprintf for formats made of literal text and %o/%x/%X/%d verbs with
// uint8 operands. The number of digits of a symbolic operand is decided by forking.
func (w *Worker) sprintfBytes(st *State, format string, args SliceV) ([]*Term, bool) {
	type piece struct {
		lit          string
		verb         byte
		zero         bool
		width        int
		arg          *Term
	}
	var ps []piece
	argi := int64(0)
	anyT := types.NewInterfaceType(nil, nil)
	for i := 0; i < len(format); {
		if format[i] != '%' {
			j := i
			for j < len(format) && format[j] != '%' {
				j++
			}
			ps = append(ps, piece{lit: format[i:j]})
			i = j
			continue
		}
		i++
		if i < len(format) && format[i] == '%' {
			ps = append(ps, piece{lit: "%"})
			i++
			continue
		}
		p := piece{}
		if i < len(format) && format[i] == '0' {
			p.zero = true
			i++
		}
		for i < len(format) && format[i] >= '0' && format[i] <= '9' {
			p.width = p.width*10 + int(format[i]-'0')
			i++
		}
		if i >= len(format) || p.width > 8 {
			return nil, false
		}
		p.verb = format[i]
		i++
		switch p.verb {
		case 'o', 'x', 'X', 'd':
		default:
			return nil, false
		}
		if argi >= args.Len {
			return nil, false
		}
		ap := args.P
		ap.Off += argi * 16
		argi++
		iv, ok := st.load(ap, anyT).(IfaceV)
		if !ok || iv.T == nil {
			return nil, false
		}
		b, isB := iv.T.Underlying().(*types.Basic)
		c, isT := iv.D.(*Term)
		if !isB || b.Kind() != types.Uint8 || !isT || c.W != 8 {
			return nil, false
		}
		p.arg = c
		ps = append(ps, p)
	}
	if argi != args.Len {
		return nil, false
	}
	// decide digit counts first (forking re-executes the call), then build the text
	type plan struct{ n int }
	plans := make([]plan, len(ps))
	for k, p := range ps {
		if p.arg == nil {
			continue
		}
		base, maxd := uint64(8), 3
		switch p.verb {
		case 'x', 'X':
			base, maxd = 16, 2
		case 'd':
			base, maxd = 10, 3
		}
		n := 1
		pow := base
		for d := 2; d <= maxd; d++ {
			if w.decide(st, Ule(Const(8, pow), p.arg)) {
				n = d
			} else {
				break
			}
			pow *= base
		}
		plans[k].n = n
	}
	var out []*Term
	for k, p := range ps {
		if p.arg == nil {
			for i := 0; i < len(p.lit); i++ {
				out = append(out, Const(8, uint64(p.lit[i])))
			}
			continue
		}
		base := uint64(8)
		switch p.verb {
		case 'x', 'X':
			base = 16
		case 'd':
			base = 10
		}
		n := plans[k].n
		pad := byte(' ')
		if p.zero {
			pad = '0'
		}
		for i := n; i < p.width; i++ {
			out = append(out, Const(8, uint64(pad)))
		}
		for d := n - 1; d >= 0; d-- {
			div := uint64(1)
			for j := 0; j < d; j++ {
				div *= base
			}
			dig := URem(UDiv(p.arg, Const(8, div)), Const(8, base))
			if base == 16 {
				lo := byte('a')
				if p.verb == 'X' {
					lo = 'A'
				}
				dig = Ite(Ult(dig, Const(8, 10)), Add(Const(8, '0'), dig), Add(Const(8, uint64(lo)-10), dig))
			} else {
				dig = Add(Const(8, '0'), dig)
			}
			out = append(out, dig)
		}
	}
	return out, true
}
