package main

// A miniature model of package reflect, sufficient for the table-construction and
// allocation code of internal/impl (fieldCoder, newValidationInfo, getMessageInfo,
// reflect.New(f.mi.GoReflectType.Elem())). A reflect.Type is the interface value
// {*reflect.rtype, TypeV{go type}}; a reflect.Value of pointer kind is the struct
// {TypeV{go type}, pointer, kind}. Everything else of reflect cuts the path.

import (
	"fmt"
	"go/types"

	"golang.org/x/tools/go/ssa"
)

func (w *Worker) rtypePtr() types.Type {
	p := w.e.prog.ImportedPackage("reflect")
	if p == nil {
		panic(cutErr{"package reflect not loaded"})
	}
	return types.NewPointer(p.Type("rtype").Type())
}

func (w *Worker) reflectTypeValue(t types.Type) Value {
	return IfaceV{T: w.rtypePtr(), D: TypeV{T: t}}
}

func reflectKind(t types.Type) uint64 {
	switch u := t.Underlying().(type) {
	case *types.Basic:
		switch u.Kind() {
		case types.Bool:
			return 1
		case types.Int:
			return 2
		case types.Int8:
			return 3
		case types.Int16:
			return 4
		case types.Int32:
			return 5
		case types.Int64:
			return 6
		case types.Uint:
			return 7
		case types.Uint8:
			return 8
		case types.Uint16:
			return 9
		case types.Uint32:
			return 10
		case types.Uint64:
			return 11
		case types.Uintptr:
			return 12
		case types.Float32:
			return 13
		case types.Float64:
			return 14
		case types.Complex64:
			return 15
		case types.Complex128:
			return 16
		case types.String:
			return 24
		case types.UnsafePointer:
			return 26
		}
	case *types.Array:
		return 17
	case *types.Chan:
		return 18
	case *types.Signature:
		return 19
	case *types.Interface:
		return 20
	case *types.Map:
		return 21
	case *types.Pointer:
		return 22
	case *types.Slice:
		return 23
	case *types.Struct:
		return 25
	}
	panic(cutErr{"reflect kind of " + t.String()})
}

func typeOfRecv(v Value) types.Type {
	switch x := v.(type) {
	case TypeV:
		return x.T
	case IfaceV:
		if tv, ok := x.D.(TypeV); ok {
			return tv.T
		}
	}
	panic(cutErr{fmt.Sprintf("reflect.Type receiver of shape %T", v)})
}

func reflectValueParts(v Value) (types.Type, Value) {
	s, ok := v.(StructV)
	if !ok || len(s) != 3 {
		panic(cutErr{fmt.Sprintf("reflect.Value of shape %T", v)})
	}
	tv, ok := s[0].(TypeV)
	if !ok {
		panic(cutErr{"reflect.Value without model type (zero Value?)"})
	}
	return tv.T, s[1]
}

func mkReflectValue(t types.Type, p Value) Value {
	return StructV{TypeV{T: t}, p, Const(64, reflectKind(t))}
}

// An addressable reflect.Value: slot 1 is the address of the variable of type t
// (reflect's flagIndir|flagAddr representation).
const rflagIndir, rflagAddr = 1 << 7, 1 << 8

func mkReflectLvalue(t types.Type, addr Value) Value {
	return StructV{TypeV{T: t}, addr, Const(64, reflectKind(t)|rflagIndir|rflagAddr)}
}

func reflectValueIndir(v Value) bool {
	s := v.(StructV)
	fl, ok := s[2].(*Term)
	return ok && fl.IsConst() && fl.C&rflagIndir != 0
}

// reflectValueWord returns the value held by a reflect.Value of type t (loading it if addressable).
func reflectValueWord(st *State, v Value) (types.Type, Value) {
	t, p := reflectValueParts(v)
	if reflectValueIndir(v) {
		pp, ok := p.(Ptr)
		if !ok || pp.IsNil() {
			panic(cutErr{"addressable reflect.Value without address"})
		}
		return t, st.load(pp, t)
	}
	return t, p
}

func init() {
	regIntrinsic("reflect.TypeOf", func(w *Worker, st *State, f *Frame, x *ssa.Call, fv FuncV, a []Value) (Value, bool) {
		chkOpaque(a[0])
		iv := a[0].(IfaceV)
		if iv.T == nil {
			return ret(IfaceV{})
		}
		return ret(w.reflectTypeValue(iv.T))
	})
	regIntrinsic("(*reflect.rtype).Kind", func(w *Worker, st *State, f *Frame, x *ssa.Call, fv FuncV, a []Value) (Value, bool) {
		return ret(Const(64, reflectKind(typeOfRecv(a[0]))))
	})
	regIntrinsic("(*reflect.rtype).Size", func(w *Worker, st *State, f *Frame, x *ssa.Call, fv FuncV, a []Value) (Value, bool) {
		return ret(Const(64, uint64(sizeof(typeOfRecv(a[0])))))
	})
	regIntrinsic("(*reflect.rtype).String", func(w *Worker, st *State, f *Frame, x *ssa.Call, fv FuncV, a []Value) (Value, bool) {
		return ret(constStr(typeOfRecv(a[0]).String()))
	})
	regIntrinsic("(*reflect.rtype).Elem", func(w *Worker, st *State, f *Frame, x *ssa.Call, fv FuncV, a []Value) (Value, bool) {
		switch u := typeOfRecv(a[0]).Underlying().(type) {
		case *types.Pointer:
			return ret(w.reflectTypeValue(u.Elem()))
		case *types.Slice:
			return ret(w.reflectTypeValue(u.Elem()))
		case *types.Array:
			return ret(w.reflectTypeValue(u.Elem()))
		case *types.Map:
			return ret(w.reflectTypeValue(u.Elem()))
		}
		panic(goPanic{msg: "reflect: Elem of invalid type"})
	})
	regIntrinsic("(*reflect.rtype).Key", func(w *Worker, st *State, f *Frame, x *ssa.Call, fv FuncV, a []Value) (Value, bool) {
		if u, ok := typeOfRecv(a[0]).Underlying().(*types.Map); ok {
			return ret(w.reflectTypeValue(u.Key()))
		}
		panic(goPanic{msg: "reflect: Key of non-map type"})
	})
	regIntrinsic("reflect.New", func(w *Worker, st *State, f *Frame, x *ssa.Call, fv FuncV, a []Value) (Value, bool) {
		chkOpaque(a[0])
		t := typeOfRecv(a[0])
		o := st.heap.alloc(sizeof(t), t, "reflect.New")
		return ret(mkReflectValue(types.NewPointer(t), Ptr{Obj: o.ID}))
	})
	regIntrinsic("reflect.NewAt", func(w *Worker, st *State, f *Frame, x *ssa.Call, fv FuncV, a []Value) (Value, bool) {
		chkOpaque(a[0], a[1])
		t := typeOfRecv(a[0])
		return ret(mkReflectValue(types.NewPointer(t), a[1]))
	})
	regIntrinsic("reflect.Zero", func(w *Worker, st *State, f *Frame, x *ssa.Call, fv FuncV, a []Value) (Value, bool) {
		chkOpaque(a[0])
		t := typeOfRecv(a[0])
		if _, ok := t.Underlying().(*types.Pointer); !ok {
			panic(cutErr{"reflect.Zero of non-pointer type " + t.String()})
		}
		return ret(mkReflectValue(t, NilPtr))
	})
	ptrOf := func(w *Worker, st *State, f *Frame, x *ssa.Call, fv FuncV, a []Value) (Value, bool) {
		t, p := reflectValueWord(st, a[0])
		if !pointerShaped(t) {
			panic(cutErr{"reflect.Value.Pointer of " + t.String()})
		}
		return ret(p)
	}
	regIntrinsic("(reflect.Value).Pointer", ptrOf)
	regIntrinsic("(reflect.Value).UnsafePointer", ptrOf)
	regIntrinsic("(reflect.Value).IsNil", func(w *Worker, st *State, f *Frame, x *ssa.Call, fv FuncV, a []Value) (Value, bool) {
		_, p := reflectValueWord(st, a[0])
		switch pp := p.(type) {
		case Ptr:
			return ret(Bool(pp.IsNil()))
		case IfaceV:
			return ret(Bool(pp.T == nil))
		}
		panic(cutErr{"reflect.Value.IsNil on non-pointer"})
	})
	regIntrinsic("(reflect.Value).Elem", func(w *Worker, st *State, f *Frame, x *ssa.Call, fv FuncV, a []Value) (Value, bool) {
		t, p := reflectValueWord(st, a[0])
		switch u := t.Underlying().(type) {
		case *types.Pointer:
			pp, ok := p.(Ptr)
			if !ok {
				panic(cutErr{"reflect.Value.Elem of odd pointer"})
			}
			if pp.IsNil() {
				return ret(zeroValue(x.Type()))
			}
			return ret(mkReflectLvalue(u.Elem(), pp))
		case *types.Interface:
			iv, ok := p.(IfaceV)
			if !ok {
				panic(cutErr{"reflect.Value.Elem of odd interface"})
			}
			if iv.T == nil {
				return ret(zeroValue(x.Type()))
			}
			if !pointerShaped(iv.T) {
				panic(cutErr{"reflect.Value.Elem: interface holding non-pointer " + iv.T.String()})
			}
			return ret(mkReflectValue(iv.T, iv.D))
		}
		panic(goPanic{msg: "reflect: call of reflect.Value.Elem on " + t.String()})
	})
	regIntrinsic("(reflect.Value).Set", func(w *Worker, st *State, f *Frame, x *ssa.Call, fv FuncV, a []Value) (Value, bool) {
		t, addr := reflectValueParts(a[0])
		if !reflectValueIndir(a[0]) {
			panic(goPanic{msg: "reflect: reflect.Value.Set using unaddressable value"})
		}
		xt, xv := reflectValueWord(st, a[1])
		if _, isI := t.Underlying().(*types.Interface); isI {
			if _, srcI := xt.Underlying().(*types.Interface); !srcI {
				if !pointerShaped(xt) {
					panic(cutErr{"reflect.Value.Set: boxing " + xt.String()})
				}
				xv = IfaceV{T: xt, D: xv}
			}
		} else if !sameType(t, xt) {
			panic(goPanic{msg: "reflect.Set: value of type " + xt.String() + " is not assignable to type " + t.String()})
		}
		st.store(addr.(Ptr), t, xv)
		return ret(nil)
	})
	regIntrinsic("(*reflect.rtype).Field", func(w *Worker, st *State, f *Frame, x *ssa.Call, fv FuncV, a []Value) (Value, bool) {
		t := typeOfRecv(a[0])
		u, ok := t.Underlying().(*types.Struct)
		if !ok {
			panic(goPanic{msg: "reflect: Field of non-struct type " + t.String()})
		}
		iv, ok := a[1].(*Term)
		if !ok || !iv.IsConst() || int(iv.C) >= u.NumFields() {
			panic(cutErr{"reflect.Type.Field with symbolic or out-of-range index"})
		}
		i := int(iv.C)
		flds := make([]*types.Var, u.NumFields())
		for j := range flds {
			flds[j] = u.Field(j)
		}
		offs := sizes.Offsetsof(flds)
		sf := zeroValue(x.Type()).(StructV) // Name PkgPath Type Tag Offset Index Anonymous
		sf[0] = constStr(u.Field(i).Name())
		sf[2] = w.reflectTypeValue(u.Field(i).Type())
		sf[3] = constStr(u.Tag(i))
		sf[4] = Const(64, uint64(offs[i]))
		sf[6] = Bool(u.Field(i).Embedded())
		return ret(sf)
	})
	regIntrinsic("(*reflect.rtype).NumField", func(w *Worker, st *State, f *Frame, x *ssa.Call, fv FuncV, a []Value) (Value, bool) {
		u, ok := typeOfRecv(a[0]).Underlying().(*types.Struct)
		if !ok {
			panic(goPanic{msg: "reflect: NumField of non-struct type"})
		}
		return ret(Const(64, uint64(u.NumFields())))
	})
	regIntrinsic("(reflect.Value).Type", func(w *Worker, st *State, f *Frame, x *ssa.Call, fv FuncV, a []Value) (Value, bool) {
		t, _ := reflectValueParts(a[0])
		return ret(w.reflectTypeValue(t))
	})
	regIntrinsic("(reflect.Value).Interface", func(w *Worker, st *State, f *Frame, x *ssa.Call, fv FuncV, a []Value) (Value, bool) {
		t, p := reflectValueWord(st, a[0])
		if iv, ok := p.(IfaceV); ok {
			return ret(iv)
		}
		if !pointerShaped(t) {
			panic(cutErr{"reflect.Value.Interface of non-pointer kind"})
		}
		return ret(IfaceV{T: t, D: p})
	})
}
