package main

// A miniature model of package reflect, sufficient for the table-construction and
// allocation code of internal/impl (fieldCoder, newValidationInfo, getMessageInfo,
// reflect.New(f.mi.GoReflectType.Elem())). A reflect.Type is the interface value
// {*reflect.rtype, TypeV{go type}}; a reflect.Value of pointer kind is the struct
// {TypeV{go type}, pointer, kind}. Everything else of reflect cuts the path.

import (
	"fmt"
	"go/types"

	"golang.org/x/tools/go/ssa"
)

func (w *Worker) rtypePtr() types.Type {
	p := w.e.prog.ImportedPackage("reflect")
	if p == nil {
		panic(cutErr{"package reflect not loaded"})
	}
	return types.NewPointer(p.Type("rtype").Type())
}

func (w *Worker) reflectTypeValue(t types.Type) Value {
	return IfaceV{T: w.rtypePtr(), D: TypeV{T: t}}
}

func reflectKind(t types.Type) uint64 {
	switch u := t.Underlying().(type) {
	case *types.Basic:
		switch u.Kind() {
		case types.Bool:
			return 1
		case types.Int:
			return 2
		case types.Int8:
			return 3
		case types.Int16:
			return 4
		case types.Int32:
			return 5
		case types.Int64:
			return 6
		case types.Uint:
			return 7
		case types.Uint8:
			return 8
		case types.Uint16:
			return 9
		case types.Uint32:
			return 10
		case types.Uint64:
			return 11
		case types.Uintptr:
			return 12
		case types.Float32:
			return 13
		case types.Float64:
			return 14
		case types.Complex64:
			return 15
		case types.Complex128:
			return 16
		case types.String:
			return 24
		case types.UnsafePointer:
			return 26
		}
	case *types.Array:
		return 17
	case *types.Chan:
		return 18
	case *types.Signature:
		return 19
	case *types.Interface:
		return 20
	case *types.Map:
		return 21
	case *types.Pointer:
		return 22
	case *types.Slice:
		return 23
	case *types.Struct:
		return 25
	}
	panic(cutErr{"reflect kind of " + t.String()})
}

func typeOfRecv(v Value) types.Type {
	switch x := v.(type) {
	case TypeV:
		return x.T
	case IfaceV:
		if tv, ok := x.D.(TypeV); ok {
			return tv.T
		}
	}
	panic(cutErr{fmt.Sprintf("reflect.Type receiver of shape %T", v)})
}

func reflectValueParts(v Value) (types.Type, Value) {
	s, ok := v.(StructV)
	if !ok || len(s) != 3 {
		panic(cutErr{fmt.Sprintf("reflect.Value of shape %T", v)})
	}
	tv, ok := s[0].(TypeV)
	if !ok {
		panic(cutErr{"reflect.Value without model type (zero Value?)"})
	}
	return tv.T, s[1]
}

func mkReflectValue(t types.Type, p Value) Value {
	return StructV{TypeV{T: t}, p, Const(64, reflectKind(t))}
}

func init() {
	regIntrinsic("reflect.TypeOf", func(w *Worker, st *State, f *Frame, x *ssa.Call, fv FuncV, a []Value) (Value, bool) {
		chkOpaque(a[0])
		iv := a[0].(IfaceV)
		if iv.T == nil {
			return ret(IfaceV{})
		}
		return ret(w.reflectTypeValue(iv.T))
	})
	regIntrinsic("(*reflect.rtype).Kind", func(w *Worker, st *State, f *Frame, x *ssa.Call, fv FuncV, a []Value) (Value, bool) {
		return ret(Const(64, reflectKind(typeOfRecv(a[0]))))
	})
	regIntrinsic("(*reflect.rtype).Size", func(w *Worker, st *State, f *Frame, x *ssa.Call, fv FuncV, a []Value) (Value, bool) {
		return ret(Const(64, uint64(sizeof(typeOfRecv(a[0])))))
	})
	regIntrinsic("(*reflect.rtype).String", func(w *Worker, st *State, f *Frame, x *ssa.Call, fv FuncV, a []Value) (Value, bool) {
		return ret(constStr(typeOfRecv(a[0]).String()))
	})
	regIntrinsic("(*reflect.rtype).Elem", func(w *Worker, st *State, f *Frame, x *ssa.Call, fv FuncV, a []Value) (Value, bool) {
		switch u := typeOfRecv(a[0]).Underlying().(type) {
		case *types.Pointer:
			return ret(w.reflectTypeValue(u.Elem()))
		case *types.Slice:
			return ret(w.reflectTypeValue(u.Elem()))
		case *types.Array:
			return ret(w.reflectTypeValue(u.Elem()))
		case *types.Map:
			return ret(w.reflectTypeValue(u.Elem()))
		}
		panic(goPanic{msg: "reflect: Elem of invalid type"})
	})
	regIntrinsic("(*reflect.rtype).Key", func(w *Worker, st *State, f *Frame, x *ssa.Call, fv FuncV, a []Value) (Value, bool) {
		if u, ok := typeOfRecv(a[0]).Underlying().(*types.Map); ok {
			return ret(w.reflectTypeValue(u.Key()))
		}
		panic(goPanic{msg: "reflect: Key of non-map type"})
	})
	regIntrinsic("reflect.New", func(w *Worker, st *State, f *Frame, x *ssa.Call, fv FuncV, a []Value) (Value, bool) {
		chkOpaque(a[0])
		t := typeOfRecv(a[0])
		o := st.heap.alloc(sizeof(t), t, "reflect.New")
		return ret(mkReflectValue(types.NewPointer(t), Ptr{Obj: o.ID}))
	})
	regIntrinsic("reflect.NewAt", func(w *Worker, st *State, f *Frame, x *ssa.Call, fv FuncV, a []Value) (Value, bool) {
		chkOpaque(a[0], a[1])
		t := typeOfRecv(a[0])
		return ret(mkReflectValue(types.NewPointer(t), a[1]))
	})
	regIntrinsic("reflect.Zero", func(w *Worker, st *State, f *Frame, x *ssa.Call, fv FuncV, a []Value) (Value, bool) {
		chkOpaque(a[0])
		t := typeOfRecv(a[0])
		if _, ok := t.Underlying().(*types.Pointer); !ok {
			panic(cutErr{"reflect.Zero of non-pointer type " + t.String()})
		}
		return ret(mkReflectValue(t, NilPtr))
	})
	ptrOf := func(w *Worker, st *State, f *Frame, x *ssa.Call, fv FuncV, a []Value) (Value, bool) {
		_, p := reflectValueParts(a[0])
		return ret(p)
	}
	regIntrinsic("(reflect.Value).Pointer", ptrOf)
	regIntrinsic("(reflect.Value).UnsafePointer", ptrOf)
	regIntrinsic("(reflect.Value).IsNil", func(w *Worker, st *State, f *Frame, x *ssa.Call, fv FuncV, a []Value) (Value, bool) {
		_, p := reflectValueParts(a[0])
		pp, ok := p.(Ptr)
		if !ok {
			panic(cutErr{"reflect.Value.IsNil on non-pointer"})
		}
		return ret(Bool(pp.IsNil()))
	})
	regIntrinsic("(reflect.Value).Type", func(w *Worker, st *State, f *Frame, x *ssa.Call, fv FuncV, a []Value) (Value, bool) {
		t, _ := reflectValueParts(a[0])
		return ret(w.reflectTypeValue(t))
	})
	regIntrinsic("(reflect.Value).Interface", func(w *Worker, st *State, f *Frame, x *ssa.Call, fv FuncV, a []Value) (Value, bool) {
		t, p := reflectValueParts(a[0])
		if !pointerShaped(t) {
			panic(cutErr{"reflect.Value.Interface of non-pointer kind"})
		}
		return ret(IfaceV{T: t, D: p})
	})
}
