package main

// A miniature model of package reflect, sufficient for the table-construction and
// allocation code of internal/impl (fieldCoder, newValidationInfo, getMessageInfo,
// reflect.New(f.mi.GoReflectType.Elem())). A reflect.Type is the interface value
// {*reflect.rtype, TypeV{go type}}; a reflect.Value of pointer kind is the struct
// {TypeV{go type}, pointer, kind}. Everything else of reflect cuts the path.

import (
	"fmt"
	"go/types"

	"golang.org/x/tools/go/ssa"
)

func (w *Worker) rtypePtr() types.Type {
	p := w.e.prog.ImportedPackage("reflect")
	if p == nil {
		panic(cutErr{"package reflect not loaded"})
	}
	return types.NewPointer(p.Type("rtype").Type())
}

func (w *Worker) reflectTypeValue(t types.Type) Value {
	return IfaceV{T: w.rtypePtr(), D: TypeV{T: t}}
}

func reflectKind(t types.Type) uint64 {
	switch u := t.Underlying().(type) {
	case *types.Basic:
		switch u.Kind() {
		case types.Bool:
			return 1
		case types.Int:
			return 2
		case types.Int8:
			return 3
		case types.Int16:
			return 4
		case types.Int32:
			return 5
		case types.Int64:
			return 6
		case types.Uint:
			return 7
		case types.Uint8:
			return 8
		case types.Uint16:
			return 9
		case types.Uint32:
			return 10
		case types.Uint64:
			return 11
		case types.Uintptr:
			return 12
		case types.Float32:
			return 13
		case types.Float64:
			return 14
		case types.Complex64:
			return 15
		case types.Complex128:
			return 16
		case types.String:
			return 24
		case types.UnsafePointer:
			return 26
		}
	case *types.Array:
		return 17
	case *types.Chan:
		return 18
	case *types.Signature:
		return 19
	case *types.Interface:
		return 20
	case *types.Map:
		return 21
	case *types.Pointer:
		return 22
	case *types.Slice:
		return 23
	case *types.Struct:
		return 25
	}
	panic(cutErr{"reflect kind of " + t.String()})
}

func typeOfRecv(v Value) types.Type {
	switch x := v.(type) {
	case TypeV:
		return x.T
	case IfaceV:
		if tv, ok := x.D.(TypeV); ok {
			return tv.T
		}
	}
	panic(cutErr{fmt.Sprintf("reflect.Type receiver of shape %T", v)})
}

func reflectValueParts(v Value) (types.Type, Value) {
	s, ok := v.(StructV)
	if !ok || len(s) != 3 {
		panic(cutErr{fmt.Sprintf("reflect.Value of shape %T", v)})
	}
	tv, ok := s[0].(TypeV)
	if !ok {
		panic(cutErr{"reflect.Value without model type (zero Value?)"})
	}
	return tv.T, s[1]
}

func mkReflectValue(t types.Type, p Value) Value {
	return StructV{TypeV{T: t}, p, Const(64, reflectKind(t))}
}

// An addressable reflect.Value: slot 1 is the address of the variable of type t
// (reflect's flagIndir|flagAddr representation).
const rflagIndir, rflagAddr = 1 << 7, 1 << 8

func mkReflectLvalue(t types.Type, addr Value) Value {
	return StructV{TypeV{T: t}, addr, Const(64, reflectKind(t)|rflagIndir|rflagAddr)}
}

func reflectValueIndir(v Value) bool {
	s := v.(StructV)
	fl, ok := s[2].(*Term)
	return ok && fl.IsConst() && fl.C&rflagIndir != 0
}

// reflectValueWord returns the value held by a reflect.Value of type t (loading it if addressable).
func reflectValueWord(st *State, v Value) (types.Type, Value) {
	t, p := reflectValueParts(v)
	if reflectValueIndir(v) {
		pp, ok := p.(Ptr)
		if !ok || pp.IsNil() {
			panic(cutErr{"addressable reflect.Value without address"})
		}
		return t, st.load(pp, t)
	}
	if b, ok := p.(BoxV); ok {
		return t, b.V
	}
	return t, p
}

// wrapReflect builds the reflect.Value holding v of type t (not addressable).
func wrapReflect(t types.Type, v Value) Value {
	if pointerShaped(t) {
		return mkReflectValue(t, v)
	}
	return StructV{TypeV{T: t}, BoxV{V: v}, Const(64, reflectKind(t))}
}

func init() {
	regIntrinsic("reflect.TypeOf", func(w *Worker, st *State, f *Frame, x *ssa.Call, fv FuncV, a []Value) (Value, bool) {
		chkOpaque(a[0])
		iv := a[0].(IfaceV)
		if iv.T == nil {
			return ret(IfaceV{})
		}
		return ret(w.reflectTypeValue(iv.T))
	})
	regIntrinsic("(*reflect.rtype).Kind", func(w *Worker, st *State, f *Frame, x *ssa.Call, fv FuncV, a []Value) (Value, bool) {
		return ret(Const(64, reflectKind(typeOfRecv(a[0]))))
	})
	regIntrinsic("(*reflect.rtype).Size", func(w *Worker, st *State, f *Frame, x *ssa.Call, fv FuncV, a []Value) (Value, bool) {
		return ret(Const(64, uint64(sizeof(typeOfRecv(a[0])))))
	})
	regIntrinsic("(*reflect.rtype).String", func(w *Worker, st *State, f *Frame, x *ssa.Call, fv FuncV, a []Value) (Value, bool) {
		return ret(constStr(typeOfRecv(a[0]).String()))
	})
	regIntrinsic("(*reflect.rtype).Elem", func(w *Worker, st *State, f *Frame, x *ssa.Call, fv FuncV, a []Value) (Value, bool) {
		switch u := typeOfRecv(a[0]).Underlying().(type) {
		case *types.Pointer:
			return ret(w.reflectTypeValue(u.Elem()))
		case *types.Slice:
			return ret(w.reflectTypeValue(u.Elem()))
		case *types.Array:
			return ret(w.reflectTypeValue(u.Elem()))
		case *types.Map:
			return ret(w.reflectTypeValue(u.Elem()))
		}
		panic(goPanic{msg: "reflect: Elem of invalid type"})
	})
	regIntrinsic("(*reflect.rtype).Key", func(w *Worker, st *State, f *Frame, x *ssa.Call, fv FuncV, a []Value) (Value, bool) {
		if u, ok := typeOfRecv(a[0]).Underlying().(*types.Map); ok {
			return ret(w.reflectTypeValue(u.Key()))
		}
		panic(goPanic{msg: "reflect: Key of non-map type"})
	})
	regIntrinsic("reflect.New", func(w *Worker, st *State, f *Frame, x *ssa.Call, fv FuncV, a []Value) (Value, bool) {
		chkOpaque(a[0])
		t := typeOfRecv(a[0])
		o := st.heap.alloc(sizeof(t), t, "reflect.New")
		return ret(mkReflectValue(types.NewPointer(t), Ptr{Obj: o.ID}))
	})
	regIntrinsic("reflect.NewAt", func(w *Worker, st *State, f *Frame, x *ssa.Call, fv FuncV, a []Value) (Value, bool) {
		chkOpaque(a[0], a[1])
		t := typeOfRecv(a[0])
		return ret(mkReflectValue(types.NewPointer(t), a[1]))
	})
	regIntrinsic("reflect.Zero", func(w *Worker, st *State, f *Frame, x *ssa.Call, fv FuncV, a []Value) (Value, bool) {
		chkOpaque(a[0])
		t := typeOfRecv(a[0])
		if _, ok := t.Underlying().(*types.Pointer); !ok {
			panic(cutErr{"reflect.Zero of non-pointer type " + t.String()})
		}
		return ret(mkReflectValue(t, NilPtr))
	})
	ptrOf := func(w *Worker, st *State, f *Frame, x *ssa.Call, fv FuncV, a []Value) (Value, bool) {
		t, p := reflectValueWord(st, a[0])
		if !pointerShaped(t) {
			panic(cutErr{"reflect.Value.Pointer of " + t.String()})
		}
		return ret(p)
	}
	regIntrinsic("(reflect.Value).Pointer", ptrOf)
	regIntrinsic("(reflect.Value).UnsafePointer", ptrOf)
	regIntrinsic("(reflect.Value).IsNil", func(w *Worker, st *State, f *Frame, x *ssa.Call, fv FuncV, a []Value) (Value, bool) {
		_, p := reflectValueWord(st, a[0])
		switch pp := p.(type) {
		case Ptr:
			return ret(Bool(pp.IsNil()))
		case IfaceV:
			return ret(Bool(pp.T == nil))
		}
		panic(cutErr{"reflect.Value.IsNil on non-pointer"})
	})
	regIntrinsic("(reflect.Value).Elem", func(w *Worker, st *State, f *Frame, x *ssa.Call, fv FuncV, a []Value) (Value, bool) {
		t, p := reflectValueWord(st, a[0])
		switch u := t.Underlying().(type) {
		case *types.Pointer:
			pp, ok := p.(Ptr)
			if !ok {
				panic(cutErr{"reflect.Value.Elem of odd pointer"})
			}
			if pp.IsNil() {
				return ret(zeroValue(x.Type()))
			}
			return ret(mkReflectLvalue(u.Elem(), pp))
		case *types.Interface:
			iv, ok := p.(IfaceV)
			if !ok {
				panic(cutErr{"reflect.Value.Elem of odd interface"})
			}
			if iv.T == nil {
				return ret(zeroValue(x.Type()))
			}
			if !pointerShaped(iv.T) {
				panic(cutErr{"reflect.Value.Elem: interface holding non-pointer " + iv.T.String()})
			}
			return ret(mkReflectValue(iv.T, iv.D))
		}
		panic(goPanic{msg: "reflect: call of reflect.Value.Elem on " + t.String()})
	})
	regIntrinsic("(reflect.Value).Set", func(w *Worker, st *State, f *Frame, x *ssa.Call, fv FuncV, a []Value) (Value, bool) {
		t, addr := reflectValueParts(a[0])
		if !reflectValueIndir(a[0]) {
			panic(goPanic{msg: "reflect: reflect.Value.Set using unaddressable value"})
		}
		xt, xv := reflectValueWord(st, a[1])
		if _, isI := t.Underlying().(*types.Interface); isI {
			if _, srcI := xt.Underlying().(*types.Interface); !srcI {
				if !pointerShaped(xt) {
					panic(cutErr{"reflect.Value.Set: boxing " + xt.String()})
				}
				xv = IfaceV{T: xt, D: xv}
			}
		} else if !sameType(t, xt) {
			panic(goPanic{msg: "reflect.Set: value of type " + xt.String() + " is not assignable to type " + t.String()})
		}
		st.store(addr.(Ptr), t, xv)
		return ret(nil)
	})
	regIntrinsic("(*reflect.rtype).Field", func(w *Worker, st *State, f *Frame, x *ssa.Call, fv FuncV, a []Value) (Value, bool) {
		t := typeOfRecv(a[0])
		u, ok := t.Underlying().(*types.Struct)
		if !ok {
			panic(goPanic{msg: "reflect: Field of non-struct type " + t.String()})
		}
		iv, ok := a[1].(*Term)
		if !ok || !iv.IsConst() || int(iv.C) >= u.NumFields() {
			panic(cutErr{"reflect.Type.Field with symbolic or out-of-range index"})
		}
		i := int(iv.C)
		flds := make([]*types.Var, u.NumFields())
		for j := range flds {
			flds[j] = u.Field(j)
		}
		offs := sizes.Offsetsof(flds)
		sf := zeroValue(x.Type()).(StructV) // Name PkgPath Type Tag Offset Index Anonymous
		sf[0] = constStr(u.Field(i).Name())
		sf[2] = w.reflectTypeValue(u.Field(i).Type())
		sf[3] = constStr(u.Tag(i))
		sf[4] = Const(64, uint64(offs[i]))
		sf[6] = Bool(u.Field(i).Embedded())
		return ret(sf)
	})
	regIntrinsic("(reflect.Value).Field", func(w *Worker, st *State, f *Frame, x *ssa.Call, fv FuncV, a []Value) (Value, bool) {
		t, addr := reflectValueParts(a[0])
		u, ok := t.Underlying().(*types.Struct)
		if !ok {
			panic(goPanic{msg: "reflect: call of reflect.Value.Field on " + t.String()})
		}
		if !reflectValueIndir(a[0]) {
			panic(cutErr{"reflect.Value.Field of a non-addressable struct value"})
		}
		iv, ok := a[1].(*Term)
		if !ok || !iv.IsConst() {
			panic(cutErr{"reflect.Value.Field with symbolic index"})
		}
		i := int(iv.C)
		if i < 0 || i >= u.NumFields() {
			panic(goPanic{msg: "reflect: Field index out of range"})
		}
		flds := make([]*types.Var, u.NumFields())
		for j := range flds {
			flds[j] = u.Field(j)
		}
		offs := sizes.Offsetsof(flds)
		p, ok := addr.(Ptr)
		if !ok || p.IsNil() {
			panic(cutErr{"reflect.Value.Field without address"})
		}
		p.Off += offs[i]
		return ret(mkReflectLvalue(u.Field(i).Type(), p))
	})
	regIntrinsic("(*reflect.rtype).NumField", func(w *Worker, st *State, f *Frame, x *ssa.Call, fv FuncV, a []Value) (Value, bool) {
		u, ok := typeOfRecv(a[0]).Underlying().(*types.Struct)
		if !ok {
			panic(goPanic{msg: "reflect: NumField of non-struct type"})
		}
		return ret(Const(64, uint64(u.NumFields())))
	})
	regIntrinsic("(reflect.Value).Type", func(w *Worker, st *State, f *Frame, x *ssa.Call, fv FuncV, a []Value) (Value, bool) {
		t, _ := reflectValueParts(a[0])
		return ret(w.reflectTypeValue(t))
	})
	regIntrinsic("(reflect.Value).Interface", func(w *Worker, st *State, f *Frame, x *ssa.Call, fv FuncV, a []Value) (Value, bool) {
		t, p := reflectValueWord(st, a[0])
		if iv, ok := p.(IfaceV); ok {
			return ret(iv)
		}
		if !pointerShaped(t) {
			panic(cutErr{"reflect.Value.Interface of non-pointer kind"})
		}
		return ret(IfaceV{T: t, D: p})
	})
}

// ---- scalar values and maps (what the map coders and convert.go need) ----

func reflectMapObj(w *Worker, st *State, v Value) (*types.Map, *Obj) {
	t, m := reflectValueWord(st, v)
	mt, ok := t.Underlying().(*types.Map)
	if !ok {
		panic(goPanic{msg: "reflect: map operation on " + t.String()})
	}
	return mt, w.mapObj(st, m)
}

func init() {
	regIntrinsic("reflect.ValueOf", func(w *Worker, st *State, f *Frame, x *ssa.Call, fv FuncV, a []Value) (Value, bool) {
		chkOpaque(a[0])
		iv := a[0].(IfaceV)
		if iv.T == nil {
			return ret(zeroValue(x.Type()))
		}
		return ret(wrapReflect(iv.T, iv.D))
	})
	regIntrinsic("(reflect.Value).Convert", func(w *Worker, st *State, f *Frame, x *ssa.Call, fv FuncV, a []Value) (Value, bool) {
		t, v := reflectValueWord(st, a[0])
		to := typeOfRecv(a[1])
		if !types.Identical(t.Underlying(), to.Underlying()) {
			panic(cutErr{"reflect.Value.Convert between " + t.String() + " and " + to.String()})
		}
		return ret(wrapReflect(to, v))
	})
	num := func(signed bool) intrinsic {
		return func(w *Worker, st *State, f *Frame, x *ssa.Call, fv FuncV, a []Value) (Value, bool) {
			t, v := reflectValueWord(st, a[0])
			tm, ok := v.(*Term)
			b, isB := t.Underlying().(*types.Basic)
			if !ok || !isB || b.Info()&types.IsInteger == 0 {
				panic(cutErr{"reflect.Value.Int/Uint of " + t.String()})
			}
			if (b.Info()&types.IsUnsigned == 0) != signed {
				panic(goPanic{msg: "reflect: call of reflect.Value.Int/Uint on " + t.String()})
			}
			if tm.W == 64 {
				return ret(tm)
			}
			if signed {
				return ret(SExt(tm, 64))
			}
			return ret(ZExt(tm, 64))
		}
	}
	regIntrinsic("(reflect.Value).Int", num(true))
	regIntrinsic("(reflect.Value).Uint", num(false))
	regIntrinsic("(reflect.Value).Bool", func(w *Worker, st *State, f *Frame, x *ssa.Call, fv FuncV, a []Value) (Value, bool) {
		_, v := reflectValueWord(st, a[0])
		tm, ok := v.(*Term)
		if !ok {
			panic(cutErr{"reflect.Value.Bool"})
		}
		return ret(tm)
	})
	regIntrinsic("(reflect.Value).String", func(w *Worker, st *State, f *Frame, x *ssa.Call, fv FuncV, a []Value) (Value, bool) {
		_, v := reflectValueWord(st, a[0])
		sv, ok := v.(StrV)
		if !ok {
			panic(cutErr{"reflect.Value.String of non-string"})
		}
		return ret(sv)
	})
	regIntrinsic("(reflect.Value).Bytes", func(w *Worker, st *State, f *Frame, x *ssa.Call, fv FuncV, a []Value) (Value, bool) {
		_, v := reflectValueWord(st, a[0])
		sv, ok := v.(SliceV)
		if !ok {
			panic(cutErr{"reflect.Value.Bytes of non-slice"})
		}
		return ret(sv)
	})
	regIntrinsic("(reflect.Value).Len", func(w *Worker, st *State, f *Frame, x *ssa.Call, fv FuncV, a []Value) (Value, bool) {
		t, v := reflectValueWord(st, a[0])
		switch t.Underlying().(type) {
		case *types.Map:
			o := w.mapObj(st, v)
			if o == nil {
				return ret(Const(64, 0))
			}
			return ret(Const(64, uint64(len(o.Map))))
		case *types.Slice:
			return ret(Const(64, uint64(v.(SliceV).Len)))
		case *types.Basic:
			if sv, ok := v.(StrV); ok {
				return ret(Const(64, uint64(sv.Len)))
			}
		}
		panic(cutErr{"reflect.Value.Len of " + t.String()})
	})
	regIntrinsic("reflect.MakeMap", func(w *Worker, st *State, f *Frame, x *ssa.Call, fv FuncV, a []Value) (Value, bool) {
		t := typeOfRecv(a[0])
		mt, ok := t.Underlying().(*types.Map)
		if !ok {
			panic(goPanic{msg: "reflect.MakeMap of non-map type"})
		}
		o := st.heap.alloc(-1, nil, "reflect.MakeMap")
		o.Kind = ObjMap
		o.MapT = mt
		return ret(mkReflectValue(t, Ptr{Obj: o.ID}))
	})
	regIntrinsic("(reflect.Value).SetMapIndex", func(w *Worker, st *State, f *Frame, x *ssa.Call, fv FuncV, a []Value) (Value, bool) {
		t, m := reflectValueWord(st, a[0])
		mt, ok := t.Underlying().(*types.Map)
		if !ok {
			panic(goPanic{msg: "reflect: SetMapIndex on " + t.String()})
		}
		kt, k := reflectValueWord(st, a[1])
		vt, v := reflectValueWord(st, a[2])
		if !sameType(kt, mt.Key()) || !sameType(vt, mt.Elem()) {
			panic(goPanic{msg: "reflect.Value.SetMapIndex: value of type " + kt.String() + "/" + vt.String() + " is not assignable to " + t.String()})
		}
		w.mapUpdate(st, m, k, v)
		return nil, true
	})
	regIntrinsic("(reflect.Value).MapIndex", func(w *Worker, st *State, f *Frame, x *ssa.Call, fv FuncV, a []Value) (Value, bool) {
		mt, o := reflectMapObj(w, st, a[0])
		_, k := reflectValueWord(st, a[1])
		i := w.mapFind(st, o, k)
		if i < 0 {
			return ret(zeroValue(x.Type()))
		}
		return ret(wrapReflect(mt.Elem(), o.Map[i].V))
	})
	regIntrinsic("(reflect.Value).MapKeys", func(w *Worker, st *State, f *Frame, x *ssa.Call, fv FuncV, a []Value) (Value, bool) {
		mt, o := reflectMapObj(w, st, a[0])
		n := 0
		if o != nil {
			n = len(o.Map)
		}
		if n == 0 {
			return ret(SliceV{})
		}
		et := x.Type().Underlying().(*types.Slice).Elem()
		es := sizeof(et)
		so := st.heap.alloc(int64(n)*es, nil, "reflect.MapKeys")
		for i := 0; i < n; i++ {
			st.storeAt(so.ID, int64(i)*es, et, wrapReflect(mt.Key(), o.Map[i].K))
		}
		return ret(SliceV{P: Ptr{Obj: so.ID}, Len: int64(n), Cap: int64(n)})
	})
	// *reflect.MapIter is modelled as a two-cell object: the map pointer and the position.
	regIntrinsic("(reflect.Value).MapRange", func(w *Worker, st *State, f *Frame, x *ssa.Call, fv FuncV, a []Value) (Value, bool) {
		t, m := reflectValueWord(st, a[0])
		if _, ok := t.Underlying().(*types.Map); !ok {
			panic(goPanic{msg: "reflect: MapRange on " + t.String()})
		}
		it := st.heap.alloc(24, nil, "reflect.MapIter")
		mo := st.heap.mut(it.ID)
		mo.Cells[0] = Cell{W: 8, V: m}
		mo.Cells[8] = Cell{W: 8, V: Const(64, ^uint64(0))}
		mo.Cells[16] = Cell{W: 8, V: TypeV{T: t}}
		return ret(Ptr{Obj: it.ID})
	})
	iterParts := func(w *Worker, st *State, p Value) (*types.Map, *Obj, int) {
		it := st.heap.get(p.(Ptr).Obj)
		mt := it.Cells[16].V.(TypeV).T.Underlying().(*types.Map)
		o := w.mapObj(st, it.Cells[0].V)
		return mt, o, int(int64(it.Cells[8].V.(*Term).C))
	}
	regIntrinsic("(*reflect.MapIter).Next", func(w *Worker, st *State, f *Frame, x *ssa.Call, fv FuncV, a []Value) (Value, bool) {
		_, o, i := iterParts(w, st, a[0])
		i++
		st.heap.mut(a[0].(Ptr).Obj).Cells[8] = Cell{W: 8, V: Const(64, uint64(int64(i)))}
		return ret(Bool(o != nil && i < len(o.Map)))
	})
	regIntrinsic("(*reflect.MapIter).Key", func(w *Worker, st *State, f *Frame, x *ssa.Call, fv FuncV, a []Value) (Value, bool) {
		mt, o, i := iterParts(w, st, a[0])
		if o == nil || i < 0 || i >= len(o.Map) {
			panic(goPanic{msg: "MapIter.Key called before Next"})
		}
		return ret(wrapReflect(mt.Key(), o.Map[i].K))
	})
	regIntrinsic("(*reflect.MapIter).Value", func(w *Worker, st *State, f *Frame, x *ssa.Call, fv FuncV, a []Value) (Value, bool) {
		mt, o, i := iterParts(w, st, a[0])
		if o == nil || i < 0 || i >= len(o.Map) {
			panic(goPanic{msg: "MapIter.Value called before Next"})
		}
		return ret(wrapReflect(mt.Elem(), o.Map[i].V))
	})
}
