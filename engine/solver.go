package main

// Persistent SMT solver processes driven over pipes with push/pop.

import (
	"bufio"
	"fmt"
	"io"
	"os"
	"os/exec"
	"strconv"
	"strings"
	"time"
)

// PC is a persistent path condition list.
type PC struct {
	parent *PC
	t      *Term
	depth  int
}

func (p *PC) And(t *Term) *PC {
	if t.Op == OpTrue {
		return p
	}
	d := 1
	if p != nil {
		d = p.depth + 1
	}
	return &PC{parent: p, t: t, depth: d}
}
func (p *PC) Slice() []*Term {
	if p == nil {
		return nil
	}
	out := make([]*Term, p.depth)
	for q := p; q != nil; q = q.parent {
		out[q.depth-1] = q.t
	}
	return out
}

type SolverStats struct {
	Queries, Sat, Unsat, Unknown, Errors int
	Dur                                  time.Duration
}

type Solver struct {
	kind      string
	cmd       *exec.Cmd
	in        io.WriteCloser
	out       *bufio.Reader
	defined   map[int]bool
	stack     []*Term
	timeoutMs int
	Stats     SolverStats
	dead      bool
	log       io.Writer
	buf       strings.Builder
}

func solverArgv(kind string, timeoutMs int) []string {
	switch kind {
	case "z3":
		return []string{"z3", "-in"}
	case "z3-new":
		return []string{"z3-new", "-in"}
	case "cvc5":
		return []string{"cvc5", "--incremental", "--produce-models", "--lang=smt2", fmt.Sprintf("--tlimit-per=%d", timeoutMs)}
	case "cvc5-int":
		return []string{"cvc5", "--incremental", "--produce-models", "--lang=smt2", "--solve-bv-as-int=sum", fmt.Sprintf("--tlimit-per=%d", timeoutMs)}
	}
	panic("unknown solver " + kind)
}

func NewSolver(kind string, timeoutMs int) *Solver {
	s := &Solver{kind: kind, timeoutMs: timeoutMs}
	if os.Getenv("SYMEX_SOLVER_LOG") != "" {
		s.log = os.Stderr
	}
	s.start()
	return s
}

func (s *Solver) start() {
	argv := solverArgv(s.kind, s.timeoutMs)
	cmd := exec.Command(argv[0], argv[1:]...)
	in, _ := cmd.StdinPipe()
	out, _ := cmd.StdoutPipe()
	cmd.Stderr = cmd.Stdout
	if err := cmd.Start(); err != nil {
		panic(err)
	}
	s.cmd, s.in, s.out = cmd, in, bufio.NewReaderSize(out, 1<<16)
	s.defined = map[int]bool{}
	s.stack = nil
	s.dead = false
	s.buf.Reset()
	s.buf.WriteString("(set-option :global-declarations true)\n")
	if strings.HasPrefix(s.kind, "z3") {
		fmt.Fprintf(&s.buf, "(set-option :timeout %d)\n", s.timeoutMs)
	} else {
		s.buf.WriteString("(set-logic ALL)\n")
	}
}

func (s *Solver) Close() {
	if s.cmd != nil {
		s.in.Close()
		s.cmd.Process.Kill()
		s.cmd.Wait()
		s.cmd = nil
	}
}

func (s *Solver) restart() {
	s.Close()
	s.start()
}

func (s *Solver) name(t *Term) string {
	switch t.Op {
	case OpConst:
		return fmt.Sprintf("(_ bv%d %d)", t.C, t.W)
	case OpTrue:
		return "true"
	case OpFalse:
		return "false"
	case OpSym:
		return "|" + t.Name + "|"
	}
	return "t" + strconv.Itoa(t.ID)
}

// define emits declarations/definitions for t and all its subterms.
func (s *Solver) define(t *Term) {
	if t.IsConst() || s.defined[t.ID] {
		return
	}
	type fr struct {
		t *Term
		i int
	}
	stk := []fr{{t, 0}}
	for len(stk) > 0 {
		f := &stk[len(stk)-1]
		if f.t.IsConst() || s.defined[f.t.ID] {
			stk = stk[:len(stk)-1]
			continue
		}
		if f.i < len(f.t.Args) {
			c := f.t.Args[f.i]
			f.i++
			if !c.IsConst() && !s.defined[c.ID] {
				stk = append(stk, fr{c, 0})
			}
			continue
		}
		x := f.t
		if x.Op == OpSym {
			fmt.Fprintf(&s.buf, "(declare-const |%s| %s)\n", x.Name, sortOf(x))
		} else {
			fmt.Fprintf(&s.buf, "(define-fun t%d () %s %s)\n", x.ID, sortOf(x), x.smtExpr(s.name))
		}
		s.defined[x.ID] = true
		stk = stk[:len(stk)-1]
	}
}

func (s *Solver) sync(pc []*Term) {
	k := 0
	for k < len(pc) && k < len(s.stack) && pc[k] == s.stack[k] {
		k++
	}
	if n := len(s.stack) - k; n > 0 {
		fmt.Fprintf(&s.buf, "(pop %d)\n", n)
		s.stack = s.stack[:k]
	}
	for ; k < len(pc); k++ {
		s.define(pc[k])
		fmt.Fprintf(&s.buf, "(push 1)\n(assert %s)\n", s.name(pc[k]))
		s.stack = append(s.stack, pc[k])
	}
}

// flush sends buffered commands followed by an end marker and returns output lines.
func (s *Solver) flush() ([]string, error) {
	s.buf.WriteString("(echo \"<END>\")\n")
	cmds := s.buf.String()
	s.buf.Reset()
	if s.log != nil {
		io.WriteString(s.log, cmds)
	}
	if _, err := io.WriteString(s.in, cmds); err != nil {
		return nil, err
	}
	// watchdog: some solver builds ignore their own time limit inside preprocessing
	proc := s.cmd.Process
	wd := time.AfterFunc(time.Duration(s.timeoutMs)*time.Millisecond*2+5*time.Second, func() { proc.Kill() })
	defer wd.Stop()
	var lines []string
	for {
		line, err := s.out.ReadString('\n')
		if err != nil {
			return lines, err
		}
		line = strings.TrimSpace(line)
		if s.log != nil {
			fmt.Fprintf(s.log, "; <- %s\n", line)
		}
		if line == "<END>" || line == "\"<END>\"" {
			return lines, nil
		}
		if line != "" {
			lines = append(lines, line)
		}
	}
}

// Check decides satisfiability of pc ∧ extra. When wantModel lists symbols and the
// answer is sat, their values are returned.
func (s *Solver) Check(pc []*Term, extra *Term, wantModel []*Term) (string, Model) {
	t0 := time.Now()
	defer func() {
		d := time.Since(t0)
		s.Stats.Dur += d
		if slowLog && d > 2*time.Second {
			ex := ""
			if extra != nil {
				ex = extra.String()
			}
			fmt.Fprintf(os.Stderr, "SLOW %.1fs pc=%d extra=%s\n", d.Seconds(), len(pc), ex)
		}
	}()
	s.Stats.Queries++
	if s.dead {
		s.restart()
	}
	s.sync(pc)
	pushed := false
	if extra != nil && extra.Op != OpTrue {
		s.define(extra)
		fmt.Fprintf(&s.buf, "(push 1)\n(assert %s)\n", s.name(extra))
		pushed = true
	}
	for _, v := range wantModel {
		s.define(v)
	}
	s.buf.WriteString("(check-sat)\n")
	lines, err := s.flush()
	res := "unknown"
	bad := err != nil
	for _, l := range lines {
		switch {
		case l == "sat" || l == "unsat" || l == "unknown":
			res = l
		case strings.HasPrefix(l, "(error"):
			bad = true
			if s.log != nil {
				fmt.Fprintf(s.log, "; SOLVER ERROR: %s\n", l)
			}
		}
	}
	if bad {
		s.Stats.Errors++
		s.Stats.Unknown++
		if debugSolver {
			fmt.Printf("solver error: %v %v\n", err, lines)
		}
		s.dead = true
		return "unknown", nil
	}
	var m Model
	if res == "sat" && len(wantModel) > 0 {
		var sb strings.Builder
		sb.WriteString("(get-value (")
		for _, v := range wantModel {
			sb.WriteString(s.name(v))
			sb.WriteByte(' ')
		}
		sb.WriteString("))\n")
		s.buf.WriteString(sb.String())
		ml, err := s.flush()
		if err != nil {
			s.dead = true
			return "unknown", nil
		}
		m = parseModel(strings.Join(ml, " "), wantModel)
	}
	if pushed {
		s.buf.WriteString("(pop 1)\n")
	}
	switch res {
	case "sat":
		s.Stats.Sat++
	case "unsat":
		s.Stats.Unsat++
	default:
		s.Stats.Unknown++
	}
	return res, m
}

var debugSolver = false
var slowLog = os.Getenv("SYMEX_SLOW") != ""

// parseModel parses ((a #x05) (|b c| true) ...) into a model.
func parseModel(txt string, syms []*Term) Model {
	m := Model{}
	byName := map[string]*Term{}
	for _, s := range syms {
		byName[s.Name] = s
	}
	// tokenise
	var toks []string
	i, n := 0, len(txt)
	for i < n {
		c := txt[i]
		switch {
		case c == ' ' || c == '\t' || c == '\n' || c == '\r':
			i++
		case c == '(' || c == ')':
			toks = append(toks, string(c))
			i++
		case c == '|':
			j := strings.IndexByte(txt[i+1:], '|')
			if j < 0 {
				j = n - i - 1
			}
			toks = append(toks, txt[i+1:i+1+j])
			i += j + 2
		default:
			j := i
			for j < n && !strings.ContainsRune(" \t\n\r()", rune(txt[j])) {
				j++
			}
			toks = append(toks, txt[i:j])
			i = j
		}
	}
	// expect ( (name value) ... ) where value is an atom or a parenthesised (_ bvN W)
	k := 0
	if k < len(toks) && toks[k] == "(" {
		k++
	}
	for k < len(toks) {
		if toks[k] != "(" {
			k++
			continue
		}
		k++
		if k >= len(toks) {
			break
		}
		name := toks[k]
		k++
		var val string
		if k < len(toks) && toks[k] == "(" {
			depth := 0
			var parts []string
			for k < len(toks) {
				if toks[k] == "(" {
					depth++
				} else if toks[k] == ")" {
					depth--
				}
				parts = append(parts, toks[k])
				k++
				if depth == 0 {
					break
				}
			}
			val = strings.Join(parts, " ")
			val = strings.ReplaceAll(val, "( ", "(")
			val = strings.ReplaceAll(val, " )", ")")
		} else if k < len(toks) {
			val = toks[k]
			k++
		}
		if k < len(toks) && toks[k] == ")" {
			k++
		}
		if s, ok := byName[name]; ok {
			m[s] = parseValue(val)
		}
	}
	return m
}

func parseValue(v string) uint64 {
	switch {
	case v == "true":
		return 1
	case v == "false":
		return 0
	case strings.HasPrefix(v, "#x"):
		u, _ := strconv.ParseUint(v[2:], 16, 64)
		return u
	case strings.HasPrefix(v, "#b"):
		u, _ := strconv.ParseUint(v[2:], 2, 64)
		return u
	case strings.HasPrefix(v, "(_ bv"):
		f := strings.Fields(v[5:])
		u, _ := strconv.ParseUint(f[0], 10, 64)
		return u
	}
	return 0
}
