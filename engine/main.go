package main

import (
	"encoding/json"
	"flag"
	"fmt"
	"go/ast"
	"go/parser"
	"go/token"
	"os"
	"os/exec"
	"path/filepath"
	"runtime"
	"sort"
	"strconv"
	"strings"
	"time"

	_ "embed"

	"golang.org/x/tools/go/packages"
	"golang.org/x/tools/go/ssa"
	"golang.org/x/tools/go/ssa/ssautil"
)

//go:embed ndsrc/nd_engine.go.txt
var ndEngineSrc []byte

//go:embed ndsrc/nd_replay.go.txt
var ndReplaySrc []byte

const modPath = "google.golang.org/protobuf"

var (
	repoDir  = envOr("VERIF_REPO", "/repo")
	verifDir = envOr("VERIF_DIR", "/verif")
)

func envOr(k, d string) string {
	if v := os.Getenv(k); v != "" {
		return v
	}
	return d
}

// HarnessDef is one harness function discovered under /verif/harness.
type HarnessDef struct {
	PkgDir  string // repo-relative package directory
	File    string // absolute path of the harness source
	Func    string
	Props   []string
	Opts    map[string]string
	DocLine string
}

func (h *HarnessDef) opt(k, d string) string {
	if v, ok := h.Opts[k]; ok {
		return v
	}
	return d
}
func (h *HarnessDef) optInt(k string, d int) int {
	if v, ok := h.Opts[k]; ok {
		n, err := strconv.Atoi(v)
		if err == nil {
			return n
		}
	}
	return d
}

// scanHarnesses parses every harness file and its //verif: directives.
func scanHarnesses() []*HarnessDef {
	var out []*HarnessDef
	root := filepath.Join(verifDir, "harness")
	filepath.Walk(root, func(p string, info os.FileInfo, err error) error {
		if err != nil || info.IsDir() || !strings.HasSuffix(p, ".go") {
			return nil
		}
		rel, _ := filepath.Rel(root, filepath.Dir(p))
		fset := token.NewFileSet()
		f, err := parser.ParseFile(fset, p, nil, parser.ParseComments)
		if err != nil {
			fmt.Fprintf(os.Stderr, "harness parse error: %v\n", err)
			os.Exit(2)
		}
		for _, d := range f.Decls {
			fd, ok := d.(*ast.FuncDecl)
			if !ok || fd.Recv != nil || !strings.HasPrefix(fd.Name.Name, "H_") || fd.Doc == nil {
				continue
			}
			h := &HarnessDef{PkgDir: rel, File: p, Func: fd.Name.Name, Opts: map[string]string{}}
			for _, c := range fd.Doc.List {
				t := strings.TrimSpace(strings.TrimPrefix(c.Text, "//"))
				if !strings.HasPrefix(t, "verif:") {
					continue
				}
				for _, kv := range strings.Fields(strings.TrimPrefix(t, "verif:")) {
					k, v, _ := strings.Cut(kv, "=")
					if k == "props" {
						h.Props = strings.Split(v, ",")
					} else {
						h.Opts[k] = v
					}
				}
			}
			if len(h.Props) > 0 {
				out = append(out, h)
			}
		}
		return nil
	})
	sort.Slice(out, func(i, j int) bool {
		if out[i].PkgDir != out[j].PkgDir {
			return out[i].PkgDir < out[j].PkgDir
		}
		return out[i].Func < out[j].Func
	})
	return out
}

// harnessOverlay maps virtual /repo paths to harness sources for the given package dirs.
func harnessOverlay(pkgDirs map[string]bool) map[string]string {
	ov := map[string]string{}
	for d := range pkgDirs {
		files, _ := filepath.Glob(filepath.Join(verifDir, "harness", d, "*.go"))
		for _, f := range files {
			ov[filepath.Join(repoDir, d, "zz_verif_"+filepath.Base(f))] = f
		}
	}
	return ov
}

func goEnv() []string {
	env := os.Environ()
	env = append(env, "GOFLAGS=-mod=mod", "GOPROXY=off", "GOSUMDB=off", "GOTOOLCHAIN=local", "GOWORK=off")
	return env
}

type Loaded struct {
	prog *ssa.Program
	pkgs map[string]*ssa.Package // by repo-relative dir
	nd   *ssa.Package
}

func loadProgram(pkgDirs map[string]bool, tags string) (*Loaded, error) {
	ov := map[string][]byte{
		filepath.Join(repoDir, "internal/zzverif/nd/nd.go"): ndEngineSrc,
	}
	for v, real := range harnessOverlay(pkgDirs) {
		src, err := os.ReadFile(real)
		if err != nil {
			return nil, err
		}
		ov[v] = src
	}
	// optional source mutation overlays (for sensitivity experiments): VERIF_MUT=file|old|new
	if m := os.Getenv("VERIF_MUT"); m != "" {
		parts := strings.SplitN(m, "|", 3)
		orig, err := os.ReadFile(parts[0])
		if err != nil {
			return nil, err
		}
		if !strings.Contains(string(orig), parts[1]) {
			return nil, fmt.Errorf("mutation target not found")
		}
		ov[parts[0]] = []byte(strings.Replace(string(orig), parts[1], parts[2], 1))
	}
	bt := "verif"
	if tags != "" {
		bt += "," + tags
	}
	cfg := &packages.Config{
		Mode:       packages.LoadAllSyntax,
		Dir:        repoDir,
		Overlay:    ov,
		BuildFlags: []string{"-tags=" + bt},
		Env:        goEnv(),
	}
	var pats []string
	var dirs []string
	for d := range pkgDirs {
		dirs = append(dirs, d)
	}
	sort.Strings(dirs)
	for _, d := range dirs {
		pats = append(pats, modPath+"/"+d)
	}
	pats = append(pats, ndPath)
	pkgs, err := packages.Load(cfg, pats...)
	if err != nil {
		return nil, err
	}
	nerr := 0
	packages.Visit(pkgs, nil, func(p *packages.Package) {
		for _, e := range p.Errors {
			fmt.Fprintf(os.Stderr, "load error: %v\n", e)
			nerr++
		}
	})
	if nerr > 0 {
		return nil, fmt.Errorf("%d package load errors", nerr)
	}
	prog, spkgs := ssautil.AllPackages(pkgs, ssa.InstantiateGenerics)
	prog.Build()
	l := &Loaded{prog: prog, pkgs: map[string]*ssa.Package{}}
	for i, p := range pkgs {
		if p.PkgPath == ndPath {
			l.nd = spkgs[i]
			continue
		}
		l.pkgs[strings.TrimPrefix(p.PkgPath, modPath+"/")] = spkgs[i]
	}
	return l, nil
}

var noMergingFlag = os.Getenv("SYMEX_NOMERGE") != ""

func newEngine(l *Loaded) *Engine {
	e := &Engine{prog: l.prog, ndPkg: l.nd, noMerging: noMergingFlag}
	theEngine = e
	e.setupGlobals()
	e.runInits()
	return e
}

func (e *Engine) runHarness(fn *ssa.Function, h *HarnessDef, tier string) *HarnessResult {
	res := &HarnessResult{Name: h.Func, Cuts: map[string]int{}, Reached: map[string]*VecSample{}, Funcs: map[string]bool{}, Stubs: map[string]bool{}}
	e.res = res
	e.stopped = false
	e.queue = nil
	e.idle, e.active = 0, 0
	qt, tt := 10000, 60000
	e.cfg = RunConfig{
		Solver:        h.opt("solver", "z3"),
		TimeoutMs:     h.optInt("timeout", map[bool]int{true: tt, false: qt}[tier == "thorough"]),
		MaxSteps:      h.optInt("maxsteps", 2_000_000),
		MaxPaths:      h.optInt("maxpaths", 0),
		ConcretizeCap: h.optInt("ccap", 64),
		Workers:       h.optInt("workers", runtime.NumCPU()),
	}
	// every harness has a wall-clock deadline (default 300 s quick / 900 s thorough); running into it
	// makes the harness inconclusive (reduced bound), never held and never violated
	dl := h.optInt("deadline", map[bool]int{true: 900, false: 300}[tier == "thorough"])
	if s := os.Getenv("VERIF_DEADLINE"); s != "" {
		if n, err := strconv.Atoi(s); err == nil {
			dl = n
		}
	}
	e.cfg.Deadline = time.Now().Add(time.Duration(dl) * time.Second)
	e.noMerging = noMergingFlag || h.opt("merge", "0") != "1"
	e.ifConv = h.opt("ifconv", "0") == "1" && !noIfConvFlag
	t0 := time.Now()
	st := &State{heap: Heap{base: e.base, objs: map[int]*Obj{}, owned: map[int]bool{}}, known: map[*Term]uint64{}}
	st.frames = []*Frame{newFrame(fn, nil, nil, retTop)}
	e.Explore(st)
	res.Wall = time.Since(t0).Seconds()
	return res
}

// ---------- evidence ----------

type HarnessEvidence struct {
	Name          string         `json:"name"`
	Package       string         `json:"package"`
	Status        string         `json:"status"` // held | violated | inconclusive | incomplete | vacuous
	Paths         int            `json:"paths"`
	Branches      int            `json:"branch_decisions"`
	Steps         int            `json:"ssa_instructions_executed"`
	Asserts       int            `json:"assertion_queries"`
	AssertsUnsat  int            `json:"assertions_unsat"`
	AssertsUnk    int            `json:"assertions_unknown"`
	Queries       int            `json:"solver_queries"`
	QSat          int            `json:"solver_sat"`
	QUnsat        int            `json:"solver_unsat"`
	QUnknown      int            `json:"solver_unknown"`
	SolverS       float64        `json:"solver_s"`
	WallS         float64        `json:"wall_s"`
	Solver        string         `json:"solver"`
	Cuts          map[string]int `json:"cuts,omitempty"`
	Reached       []string       `json:"markers_reached"`
	MissingMarker []string       `json:"markers_unreached,omitempty"`
	Bounds        string         `json:"bounds,omitempty"`
	Notes         []string       `json:"notes,omitempty"`
}

type Evidence struct {
	PropertyID  string   `json:"property_id"`
	Tier        string   `json:"tier"`
	Seed        int      `json:"seed"`
	Level       string   `json:"level"`
	Coverage    Coverage `json:"coverage"`
	Assumptions []string `json:"assumptions"`
	WallS       float64  `json:"wall_s"`
	Violations  int      `json:"violations"`
}

type Coverage struct {
	States          int               `json:"states"`
	Transitions     int               `json:"transitions"`
	TracesValidated int               `json:"traces_validated_against_impl"`
	Samples         []*VecSample      `json:"samples"`
	Exhaustive      bool              `json:"exhaustive"`
	Explanation     string            `json:"explanation"`
	Technique       string            `json:"technique"`
	Functions       []string          `json:"functions_encoded"`
	Stubs           []string          `json:"stubs_used"`
	Harnesses       []HarnessEvidence `json:"harnesses"`
	Queries         map[string]int    `json:"queries"`
	SolverS         float64           `json:"solver_s"`
	Solvers         []string          `json:"solvers"`
	RepoTree        string            `json:"repo_tree_state"`
	KnownFindings   []string          `json:"known_findings_matched,omitempty"`
	Replays         []string          `json:"replays,omitempty"`
	EncoderDisagree []string          `json:"encoder_disagreements,omitempty"`
}

func repoTreeState() string {
	out, err := exec.Command("git", "-C", repoDir, "rev-parse", "HEAD").Output()
	s := strings.TrimSpace(string(out))
	if err != nil {
		s = "unknown"
	}
	d, _ := exec.Command("git", "-C", repoDir, "status", "--porcelain").Output()
	if len(strings.TrimSpace(string(d))) > 0 {
		s += "+dirty"
	}
	return s
}

// ---------- known findings ----------

type KnownFinding struct {
	Property string `json:"property"`
	Harness  string `json:"harness"`
	Label    string `json:"label"`
	What     string `json:"what"`
	Status   string `json:"status"` // known | fixed
	Commit   string `json:"commit,omitempty"`
}

func loadKnown() []KnownFinding {
	var f struct {
		Findings []KnownFinding `json:"findings"`
	}
	data, err := os.ReadFile(filepath.Join(verifDir, "known_findings.json"))
	if err != nil {
		return nil
	}
	if err := json.Unmarshal(data, &f); err != nil {
		fmt.Fprintf(os.Stderr, "known_findings.json: %v\n", err)
		os.Exit(2)
	}
	return f.Findings
}

// ---------- commands ----------

func main() {
	if len(os.Args) < 2 {
		fmt.Fprintln(os.Stderr, "usage: gosymex check <prop> [quick|thorough] | dev ... | list")
		os.Exit(2)
	}
	switch os.Args[1] {
	case "check":
		os.Exit(cmdCheck(os.Args[2:]))
	case "dev":
		os.Exit(cmdDev(os.Args[2:]))
	case "list":
		for _, h := range scanHarnesses() {
			fmt.Printf("%-40s %-28s props=%v opts=%v\n", h.PkgDir, h.Func, h.Props, h.Opts)
		}
	case "replay":
		os.Exit(cmdReplay(os.Args[2:]))
	default:
		fmt.Fprintln(os.Stderr, "unknown command")
		os.Exit(2)
	}
}

func tierMatches(h *HarnessDef, tier string) bool {
	t := h.opt("tier", "")
	return t == "" || t == tier
}

func cmdDev(args []string) int {
	fs := flag.NewFlagSet("dev", flag.ExitOnError)
	fn := fs.String("func", "", "harness function (comma separated); empty = all in package")
	pkg := fs.String("pkg", "", "repo-relative package dir")
	tier := fs.String("tier", "quick", "tier")
	dbg := fs.Bool("cuts", false, "print cuts")
	dsol := fs.Bool("dsol", false, "print solver errors")
	dmerge := fs.Bool("dmerge", false, "print merge failures")
	nomerge := fs.Bool("nomerge", false, "disable function-level merging")
	noReplay := fs.Bool("noreplay", false, "skip native replay")
	workers := fs.Int("workers", 0, "override workers")
	fs.Parse(args)
	debugCuts = *dbg
	debugSolver = *dsol
	debugMerge = *dmerge
	noMergingFlag = *nomerge
	theTier = *tier
	var sel []*HarnessDef
	for _, h := range scanHarnesses() {
		if h.PkgDir != *pkg {
			continue
		}
		if *fn != "" {
			ok := false
			for _, n := range strings.Split(*fn, ",") {
				if n == h.Func {
					ok = true
				}
			}
			if !ok {
				continue
			}
		}
		if *workers > 0 {
			h.Opts["workers"] = strconv.Itoa(*workers)
		}
		sel = append(sel, h)
	}
	if len(sel) == 0 {
		fmt.Println("no harness selected")
		return 2
	}
	rc := 0
	runGroup(sel, *tier, "DEV", !*noReplay, func(h *HarnessDef, r *HarnessResult, ev *HarnessEvidence, confirmed []*Violation, unconfirmed []*Violation) {
		fmt.Printf("%s: ifconv=%d merges=%d status=%s paths=%d asserts=%d(unsat %d, unk %d) queries=%d solver=%.2fs wall=%.2fs cuts=%v reached=%v missing=%v\n",
			h.Func, r.IfConv, r.Merges, ev.Status, r.Paths, r.Asserts, r.AssertsUnsat, r.AssertsUnk, r.Stats.Queries, r.Stats.Dur.Seconds(), r.Wall, r.Cuts, ev.Reached, ev.MissingMarker)
		for _, v := range confirmed {
			fmt.Printf("  CONFIRMED %s %q: %s\n   %s\n", v.Kind, v.Label, v.Msg, fmtVec(v.Vector))
			rc = 1
		}
		for _, v := range unconfirmed {
			fmt.Printf("  UNCONFIRMED (encoder disagreement) %s %q: %s\n   %s\n   %s\n", v.Kind, v.Label, v.Msg, fmtVec(v.Vector), strings.Join(v.Stack, "\n   "))
		}
	})
	return rc
}

type groupCB func(h *HarnessDef, r *HarnessResult, ev *HarnessEvidence, confirmed, unconfirmed []*Violation)

// expectedMarkers lists nd.Reach labels in a harness function body (static scan).
func expectedMarkers(h *HarnessDef) []string {
	fset := token.NewFileSet()
	f, err := parser.ParseFile(fset, h.File, nil, 0)
	if err != nil {
		return nil
	}
	var out []string
	for _, d := range f.Decls {
		fd, ok := d.(*ast.FuncDecl)
		if !ok || fd.Name.Name != h.Func {
			continue
		}
		ast.Inspect(fd, func(n ast.Node) bool {
			c, ok := n.(*ast.CallExpr)
			if !ok {
				return true
			}
			se, ok := c.Fun.(*ast.SelectorExpr)
			if !ok || se.Sel.Name != "Reach" {
				return true
			}
			if id, ok := se.X.(*ast.Ident); !ok || id.Name != "nd" {
				return true
			}
			if len(c.Args) == 1 {
				if bl, ok := c.Args[0].(*ast.BasicLit); ok {
					s, _ := strconv.Unquote(bl.Value)
					out = append(out, s)
				}
			}
			return true
		})
	}
	return out
}

func runGroup(sel []*HarnessDef, tier, propID string, doReplay bool, cb groupCB) (funcs, stubs map[string]bool, err error) {
	funcs, stubs = map[string]bool{}, map[string]bool{}
	// group by extra tags so that each distinct build configuration is loaded once
	byTags := map[string][]*HarnessDef{}
	for _, h := range sel {
		byTags[h.opt("tags", "")] = append(byTags[h.opt("tags", "")], h)
	}
	var tagKeys []string
	for k := range byTags {
		tagKeys = append(tagKeys, k)
	}
	sort.Strings(tagKeys)
	for _, tags := range tagKeys {
		hs := byTags[tags]
		dirs := map[string]bool{}
		for _, h := range hs {
			dirs[h.PkgDir] = true
		}
		t0 := time.Now()
		l, lerr := loadProgram(dirs, tags)
		if lerr != nil {
			return funcs, stubs, lerr
		}
		e := newEngine(l)
		fmt.Printf("NOTE: loaded %d packages, built SSA and ran lenient init in %.1fs\n", len(l.prog.AllPackages()), time.Since(t0).Seconds())
		for _, h := range hs {
			sp := l.pkgs[h.PkgDir]
			if sp == nil {
				return funcs, stubs, fmt.Errorf("package %s not loaded", h.PkgDir)
			}
			fn := sp.Func(h.Func)
			if fn == nil {
				return funcs, stubs, fmt.Errorf("harness %s not found in %s", h.Func, h.PkgDir)
			}
			r := e.runHarness(fn, h, tier)
			for k := range r.Funcs {
				funcs[k] = true
			}
			for k := range r.Stubs {
				stubs[k] = true
			}
			ev := &HarnessEvidence{Name: h.Func, Package: h.PkgDir, Paths: r.Paths, Branches: r.Branches, Steps: r.Steps,
				Asserts: r.Asserts, AssertsUnsat: r.AssertsUnsat, AssertsUnk: r.AssertsUnk, Queries: r.Stats.Queries,
				QSat: r.Stats.Sat, QUnsat: r.Stats.Unsat, QUnknown: r.Stats.Unknown, SolverS: r.Stats.Dur.Seconds(), WallS: r.Wall,
				Solver: h.opt("solver", "z3"), Cuts: r.Cuts, Bounds: h.opt("bounds", "")}
			for k := range r.Reached {
				ev.Reached = append(ev.Reached, k)
			}
			sort.Strings(ev.Reached)
			exp := expectedMarkers(h)
			if need := h.opt("need", ""); need != "" {
				for _, m := range strings.Split(need, "|") {
					exp = append(exp, strings.ReplaceAll(m, "_", " "))
				}
			}
			for _, m := range exp {
				if _, ok := r.Reached[m]; !ok {
					ev.MissingMarker = append(ev.MissingMarker, m)
				}
			}
			var confirmed, unconfirmed []*Violation
			for _, v := range r.Violations {
				if !doReplay {
					confirmed = append(confirmed, v)
					continue
				}
				ok, out := replayNative(h, v.Vector, v.Label, v.Kind, tier, tags)
				if ok {
					confirmed = append(confirmed, v)
				} else {
					v.Msg += " | native replay: " + out
					unconfirmed = append(unconfirmed, v)
				}
			}
			// translator validation: replay reachability witnesses natively (same marker, no failure)
			nw := 0
			if doReplay && os.Getenv("VERIF_NO_WITNESS") == "" {
				maxW := 1
				if tier == "thorough" {
					maxW = 3
				}
				for _, k := range ev.Reached {
					if nw >= maxW {
						break
					}
					smp := r.Reached[k]
					if smp == nil || len(smp.Vector) == 0 {
						continue
					}
					ok, out := replayWitness(h, smp.Vector, k, tier, tags)
					nw++
					if ok {
						r.WitnessOK++
					} else {
						r.WitnessBad = append(r.WitnessBad, fmt.Sprintf("%s marker %q: %s%s", h.Func, k, out, fmtVec(smp.Vector)))
					}
				}
			}
			switch {
			case len(confirmed) > 0:
				ev.Status = "violated"
			case len(r.WitnessBad) > 0:
				ev.Status = "inconclusive"
				ev.Notes = append(ev.Notes, "a reachability witness did not behave the same natively (encoder disagreement): "+strings.Join(r.WitnessBad, "; "))
			case len(unconfirmed) > 0:
				ev.Status = "inconclusive"
				ev.Notes = append(ev.Notes, "solver counterexample did not reproduce natively (encoder disagreement)")
			case r.PathCap || r.Timeout:
				ev.Status = "inconclusive"
				ev.Notes = append(ev.Notes, "path cap or deadline reached: reduced bound")
			case r.AssertsUnk > 0 || r.UnknownFeas > 0:
				ev.Status = "inconclusive"
				ev.Notes = append(ev.Notes, fmt.Sprintf("solver unknown on %d assertions / %d feasibility queries", r.AssertsUnk, r.UnknownFeas))
			case len(r.Cuts) > 0:
				ev.Status = "incomplete"
			case len(ev.MissingMarker) > 0 || r.Paths == 0:
				ev.Status = "vacuous"
			default:
				ev.Status = "held"
			}
			cb(h, r, ev, confirmed, unconfirmed)
		}
	}
	return funcs, stubs, nil
}

func cmdCheck(args []string) int {
	if len(args) < 1 {
		fmt.Fprintln(os.Stderr, "usage: check <prop> [quick|thorough]")
		return 2
	}
	prop := args[0]
	tier := envOr("VERIF_TIER", "quick")
	if len(args) > 1 {
		tier = args[1]
	}
	theTier = tier
	seed, _ := strconv.Atoi(envOr("VERIF_SEED", "0"))
	t0 := time.Now()
	var sel []*HarnessDef
	for _, h := range scanHarnesses() {
		for _, p := range h.Props {
			if p == prop && tierMatches(h, tier) {
				sel = append(sel, h)
			}
		}
	}
	if len(sel) == 0 {
		fmt.Fprintf(os.Stderr, "no harness registered for %s\n", prop)
		return 2
	}
	known := loadKnown()
	ev := Evidence{PropertyID: prop, Tier: tier, Seed: seed, Level: "model_checking"}
	cov := &ev.Coverage
	cov.Queries = map[string]int{}
	cov.RepoTree = repoTreeState()
	cov.Technique = "bounded symbolic execution of go/ssa of the real code; every branch and assertion decided by an SMT solver (QF_BV) over all inputs within the stated bounds; sat answers replayed natively"
	solvers := map[string]bool{}
	exit := 0
	var notes []string
	funcs, stubs, err := runGroup(sel, tier, prop, true, func(h *HarnessDef, r *HarnessResult, he *HarnessEvidence, confirmed, unconfirmed []*Violation) {
		cov.States += r.Paths
		cov.Transitions += r.Branches + r.Paths
		cov.Queries["total"] += r.Stats.Queries
		cov.Queries["sat"] += r.Stats.Sat
		cov.Queries["unsat"] += r.Stats.Unsat
		cov.Queries["unknown"] += r.Stats.Unknown
		cov.Queries["assertions"] += r.Asserts
		cov.Queries["assertions_unsat"] += r.AssertsUnsat
		cov.SolverS += r.Stats.Dur.Seconds()
		solvers[he.Solver] = true
		for _, s := range r.Samples {
			if len(cov.Samples) < 12 {
				cov.Samples = append(cov.Samples, s)
			}
		}
		for _, k := range he.Reached {
			if len(cov.Samples) < 40 {
				cov.Samples = append(cov.Samples, r.Reached[k])
			}
		}
		for _, v := range unconfirmed {
			cov.EncoderDisagree = append(cov.EncoderDisagree, fmt.Sprintf("%s %q %s", h.Func, v.Label, fmtVec(v.Vector)))
		}
		cov.TracesValidated += r.WitnessOK
		cov.EncoderDisagree = append(cov.EncoderDisagree, r.WitnessBad...)
		for _, v := range confirmed {
			cov.TracesValidated++
			kf := matchKnown(known, prop, h.Func, v.Label)
			if kf != nil {
				line := fmt.Sprintf("KNOWN-FINDING: property=%s %s (harness %s, label %q, e.g.%s)", prop, kf.What, h.Func, v.Label, fmtVec(v.Vector))
				dup := false
				for _, l := range cov.KnownFindings {
					if strings.HasPrefix(l, fmt.Sprintf("KNOWN-FINDING: property=%s %s (harness %s, label %q", prop, kf.What, h.Func, v.Label)) {
						dup = true
					}
				}
				if !dup {
					fmt.Println(line)
					cov.KnownFindings = append(cov.KnownFindings, line)
				}
				he.Status = "known-finding"
				continue
			}
			path := writeReplay(prop, h, v, tier)
			fmt.Printf("VIOLATION property=%s replay=%s\n", prop, path)
			fmt.Printf("  harness=%s label=%q kind=%s %s\n  input:%s\n", h.Func, v.Label, v.Kind, v.Msg, fmtVec(v.Vector))
			cov.Replays = append(cov.Replays, path)
			ev.Violations++
			exit = 1
		}
		if he.Status != "held" && he.Status != "violated" && he.Status != "known-finding" {
			notes = append(notes, fmt.Sprintf("NOTE: harness %s is %s: cuts=%v unreached=%v %v", h.Func, he.Status, r.Cuts, he.MissingMarker, he.Notes))
		}
		cov.Harnesses = append(cov.Harnesses, *he)
	})
	if err != nil {
		// cannot build the encoding from the current tree: inconclusive, never a violation
		fmt.Printf("NOTE: property=%s inconclusive: %v\n", prop, err)
		cov.Explanation = "encoding could not be built from the current tree: " + err.Error()
	}
	for _, n := range notes {
		fmt.Println(n)
	}
	for k := range funcs {
		if !strings.Contains(k, "zzverif") {
			cov.Functions = append(cov.Functions, k)
		}
	}
	sort.Strings(cov.Functions)
	for k := range stubs {
		cov.Stubs = append(cov.Stubs, k)
	}
	sort.Strings(cov.Stubs)
	for s := range solvers {
		cov.Solvers = append(cov.Solvers, s)
	}
	sort.Strings(cov.Solvers)
	if cov.Explanation == "" {
		held, other := 0, 0
		for _, h := range cov.Harnesses {
			if h.Status == "held" {
				held++
			} else {
				other++
			}
		}
		cov.Explanation = fmt.Sprintf("%d harnesses: %d held on every explored path with every assertion query unsat; %d other (see harnesses[].status). states = completed feasible symbolic paths, transitions = solver-decided branch decisions + path completions. Bounds per harness are in harnesses[].bounds; anything beyond them is outside the claim.", len(cov.Harnesses), held, other)
	}
	if len(cov.Samples) == 0 {
		cov.Samples = []*VecSample{{Harness: "none", Marker: "no sample produced"}}
	}
	if cov.States == 0 {
		cov.States = 0
	}
	ev.Assumptions = []string{
		"go/packages + go/ssa (x/tools v0.29.0) lower the source to SSA with gc semantics; gc/amd64 layout (64-bit int, StdSizes{8,8})",
		"engine instruction semantics and the stubs listed in coverage.stubs_used (validated by native replay of every counterexample, not proved)",
		"unsat answers of the SMT solver are trusted; sat answers are replayed against the real build before being reported",
		"sequential execution; sync/atomic and mutexes have single-thread semantics",
		"package init executed leniently and concretely; values init could not compute are opaque and cut any path that reads them",
	}
	for _, h := range sel {
		if h.Func == "H_C18_lazy_publish_order" {
			ev.Assumptions = append(ev.Assumptions, "assertions labelled 'ordering:' (publication log, harness H_C18_lazy_publish_order) are observed in the symbolic heap; a native sequential replay of such a counterexample confirms only that the input reaches the assertion site")
		}
	}
	ev.WallS = time.Since(t0).Seconds()
	evDir := envOr("VERIF_EVIDENCE_DIR", filepath.Join(verifDir, "evidence"))
	os.MkdirAll(evDir, 0o755)
	data, _ := json.MarshalIndent(ev, "", " ")
	os.WriteFile(filepath.Join(evDir, prop+".json"), append(data, '\n'), 0o644)
	fmt.Printf("property=%s tier=%s harnesses=%d paths=%d queries=%d violations=%d wall=%.1fs\n", prop, tier, len(cov.Harnesses), cov.States, cov.Queries["total"], ev.Violations, ev.WallS)
	return exit
}

func matchKnown(known []KnownFinding, prop, harness, label string) *KnownFinding {
	for i := range known {
		k := &known[i]
		if k.Status == "known" && k.Property == prop && k.Harness == harness && k.Label == label {
			return k
		}
	}
	return nil
}
