package main

// Lazily initialised objects (nd.FreshPointer): cells are created as fresh symbols
// of the kind of the first access.

type LazyInfo struct {
	Name string
}

func (st *State) lazyLeaf(o *Obj, off int64, l Leaf) Value {
	var v Value
	switch l.K {
	case LBool:
		b := st.fresh(8, "lazy")
		st.assume(Ule(b, Const(8, 1)))
		v = Eq(b, Const(8, 1))
	case LInt, LWord:
		v = st.fresh(l.W*8, "lazy")
	default:
		panic(cutErr{"lazy pointer leaf"})
	}
	mo := st.heap.mut(o.ID)
	mo.Cells[off] = Cell{int8(l.W), v}
	return v
}
