package main

import (
	"fmt"
	"go/types"
	"sort"
	"sync"
	"sync/atomic"
)

type Cell struct {
	W int8  // bytes
	V Value // *Term (BV 8*W, or Bool when W==1), Ptr, FuncV, TypeV, BoxV, Opaque
}

type ObjKind uint8

const (
	ObjData ObjKind = iota
	ObjMap
)

type MapEntry struct {
	K, V Value
}

type Obj struct {
	ID       int
	Size     int64 // bytes; -1 unknown
	Kind     ObjKind
	Cells    map[int64]Cell
	Typ      types.Type
	Name     string
	ReadOnly bool
	Lazy     *LazyInfo  // non-nil: missing cells become fresh symbols
	Map      []MapEntry // ObjMap: insertion ordered
	MapT     *types.Map
	OpaqueBg bool // missing cells are opaque (init could not compute them)
}

func (o *Obj) clone() *Obj {
	n := *o
	n.Cells = make(map[int64]Cell, len(o.Cells)+4)
	for k, v := range o.Cells {
		n.Cells[k] = v
	}
	if o.Map != nil {
		n.Map = append([]MapEntry(nil), o.Map...)
	}
	return &n
}

var objSeq int64

func newObjID() int { return int(atomic.AddInt64(&objSeq, 1)) }

// constant (read-only, global) objects: string literals
var (
	constMu   sync.Mutex
	constObjs = map[int]*Obj{}
	constStrs = map[string]int{}
)

func constStringObj(s string) *Obj {
	constMu.Lock()
	defer constMu.Unlock()
	if id, ok := constStrs[s]; ok {
		return constObjs[id]
	}
	o := &Obj{ID: newObjID(), Size: int64(len(s)), Cells: make(map[int64]Cell, len(s)), ReadOnly: true, Name: "strconst"}
	for i := 0; i < len(s); i++ {
		o.Cells[int64(i)] = Cell{1, Const(8, uint64(s[i]))}
	}
	constObjs[o.ID] = o
	constStrs[s] = o.ID
	return o
}

func constStr(s string) StrV {
	if len(s) == 0 {
		return StrV{}
	}
	return StrV{P: Ptr{Obj: constStringObj(s).ID}, Len: int64(len(s))}
}

type Heap struct {
	base  *Heap
	objs  map[int]*Obj
	owned map[int]bool
}

func (h *Heap) get(id int) *Obj {
	if o, ok := h.objs[id]; ok {
		return o
	}
	if h.base != nil {
		if o, ok := h.base.objs[id]; ok {
			return o
		}
	}
	constMu.Lock()
	o := constObjs[id]
	constMu.Unlock()
	if o == nil {
		panic(cutErr{fmt.Sprintf("dangling object %d", id)})
	}
	return o
}

func (h *Heap) objOrNil(id int) *Obj {
	if o, ok := h.objs[id]; ok {
		return o
	}
	if h.base != nil {
		if o, ok := h.base.objs[id]; ok {
			return o
		}
	}
	return nil
}

func (h *Heap) mut(id int) *Obj {
	if h.owned[id] {
		return h.objs[id]
	}
	o := h.get(id)
	if o.ReadOnly {
		panic(cutErr{"write to read-only object " + o.Name})
	}
	n := o.clone()
	h.objs[id] = n
	h.owned[id] = true
	return n
}

func (h *Heap) alloc(size int64, t types.Type, name string) *Obj {
	o := &Obj{ID: newObjID(), Size: size, Cells: map[int64]Cell{}, Typ: t, Name: name}
	h.objs[o.ID] = o
	h.owned[o.ID] = true
	return o
}

func (h *Heap) fork() Heap {
	n := Heap{base: h.base, objs: make(map[int]*Obj, len(h.objs)+8), owned: map[int]bool{}}
	for k, v := range h.objs {
		n.objs[k] = v
	}
	h.owned = map[int]bool{}
	return n
}

// ---------- leaf access ----------

func zeroLeaf(l Leaf) Value {
	switch l.K {
	case LBool:
		return TFalse
	case LPtr:
		return NilPtr
	}
	return Const(l.W*8, 0)
}

// coerce converts a cell value to what a leaf of kind k/w expects.
func coerceLeaf(v Value, l Leaf) Value {
	switch x := v.(type) {
	case *Term:
		switch l.K {
		case LBool:
			if x.W == 0 {
				return x
			}
			return BNot(Eq(x, Const(x.W, 0)))
		case LInt, LWord:
			if x.W == 0 {
				return BoolToBV(x, l.W*8)
			}
			if x.W != l.W*8 {
				panic(cutErr{"cell width mismatch"})
			}
			return x
		case LPtr:
			if x.IsConst() && x.ConstVal() == 0 {
				return NilPtr
			}
			panic(cutErr{"integer read as pointer"})
		}
	case Ptr:
		if l.K == LPtr || l.K == LWord {
			return x
		}
		if x.IsNil() && l.K == LInt {
			return Const(l.W*8, 0)
		}
		panic(cutErr{"pointer read as integer"})
	case FuncV, TypeV, BoxV:
		if l.K == LPtr || l.K == LWord {
			return x
		}
		panic(cutErr{"pointer-like read as integer"})
	case Opaque:
		return x
	}
	panic(fmt.Sprintf("coerceLeaf %T", v))
}

func (st *State) loadLeaf(o *Obj, off int64, l Leaf) Value {
	if o.Size >= 0 && (off < 0 || off+int64(l.W) > o.Size) {
		panic(cutErr{fmt.Sprintf("out-of-object access obj=%s size=%d off=%d w=%d", o.Name, o.Size, off, l.W)})
	}
	if c, ok := o.Cells[off]; ok && int(c.W) == l.W {
		return coerceLeaf(c.V, l)
	}
	// is the whole range untouched?
	touched := false
	for k := off - 7; k < off+int64(l.W); k++ {
		if c, ok := o.Cells[k]; ok && k+int64(c.W) > off {
			touched = true
			break
		}
	}
	if !touched {
		if o.Lazy != nil {
			return st.lazyLeaf(o, off, l)
		}
		if o.OpaqueBg {
			return Opaque{"uninitialised (init not executed) " + o.Name}
		}
		return zeroLeaf(l)
	}
	if l.K == LPtr {
		panic(cutErr{"partial pointer read"})
	}
	// compose from bytes, little endian
	var res *Term
	for k := int64(0); k < int64(l.W); k++ {
		b := st.loadByte(o, off+k)
		if res == nil {
			res = b
		} else {
			res = Concat(b, res)
		}
	}
	if l.K == LBool {
		return BNot(Eq(res, Const(8, 0)))
	}
	return res
}

func (st *State) loadByte(o *Obj, off int64) *Term {
	for k := off; k > off-8; k-- {
		c, ok := o.Cells[k]
		if !ok {
			continue
		}
		if k+int64(c.W) <= off {
			continue
		}
		t, ok := c.V.(*Term)
		if !ok {
			panic(cutErr{"byte read of pointer cell"})
		}
		if t.W == 0 {
			t = BoolToBV(t, 8)
		}
		i := int(off - k)
		return Extract(t, i*8+7, i*8)
	}
	if o.Lazy != nil {
		v := st.lazyLeaf(o, off, Leaf{off, LInt, 1})
		return v.(*Term)
	}
	if o.OpaqueBg {
		panic(cutErr{"byte read of uninitialised " + o.Name})
	}
	return Const(8, 0)
}

func (st *State) storeLeaf(id int, off int64, l Leaf, v Value) {
	o := st.heap.mut(id)
	if o.Size >= 0 && (off < 0 || off+int64(l.W) > o.Size) {
		panic(cutErr{fmt.Sprintf("out-of-object store obj=%s size=%d off=%d w=%d", o.Name, o.Size, off, l.W)})
	}
	// split overlapping cells
	for k := off - 7; k < off+int64(l.W); k++ {
		c, ok := o.Cells[k]
		if !ok || k+int64(c.W) <= off {
			continue
		}
		if k == off && int(c.W) == l.W {
			continue
		}
		// overlapping cell with different extent: explode it into bytes
		t, ok := c.V.(*Term)
		if !ok {
			if p, isP := c.V.(Ptr); isP && p.IsNil() {
				t = Const(64, 0)
			} else {
				panic(cutErr{"partial overwrite of pointer cell"})
			}
		}
		if t.W == 0 {
			t = BoolToBV(t, 8)
		}
		delete(o.Cells, k)
		for i := int64(0); i < int64(c.W); i++ {
			o.Cells[k+i] = Cell{1, Extract(t, int(i)*8+7, int(i)*8)}
		}
	}
	for i := int64(1); i < int64(l.W); i++ {
		delete(o.Cells, off+i)
	}
	o.Cells[off] = Cell{int8(l.W), v}
}

// ---------- typed access ----------

func (st *State) deref(p Ptr) *Obj {
	if p.Obj == 0 {
		panic(goPanic{msg: "nil pointer dereference"})
	}
	return st.heap.get(p.Obj)
}

// load reads a value of type t at p.
func (st *State) load(p Ptr, t types.Type) Value {
	if p.Sym != nil {
		return st.loadSym(p, t)
	}
	o := st.deref(p)
	return st.loadAt(o, p.Off, t)
}

func (st *State) loadAt(o *Obj, off int64, t types.Type) Value {
	switch u := t.Underlying().(type) {
	case *types.Basic:
		switch {
		case u.Info()&types.IsString != 0:
			pv := st.loadLeaf(o, off, Leaf{0, LPtr, 8})
			lv := st.loadLeaf(o, off+8, Leaf{0, LInt, 8})
			return st.mkStr(pv, lv)
		case u.Info()&types.IsComplex != 0:
			w := int(sizeof(t) / 2)
			return StructV{st.loadLeaf(o, off, Leaf{0, LInt, w}), st.loadLeaf(o, off+int64(w), Leaf{0, LInt, w})}
		}
		ls := leavesOf(t)
		return st.loadLeaf(o, off, ls[0])
	case *types.Pointer, *types.Map, *types.Chan, *types.Signature:
		return st.loadLeaf(o, off, Leaf{0, LPtr, 8})
	case *types.Slice:
		pv := st.loadLeaf(o, off, Leaf{0, LPtr, 8})
		lv := st.loadLeaf(o, off+8, Leaf{0, LInt, 8})
		cv := st.loadLeaf(o, off+16, Leaf{0, LInt, 8})
		return st.mkSlice(pv, lv, cv)
	case *types.Interface:
		tw := st.loadLeaf(o, off, Leaf{0, LPtr, 8})
		dw := st.loadLeaf(o, off+8, Leaf{0, LPtr, 8})
		return mkIface(tw, dw)
	case *types.Struct:
		s := make(StructV, u.NumFields())
		if len(s) == 0 {
			return s
		}
		fields := make([]*types.Var, u.NumFields())
		for i := range fields {
			fields[i] = u.Field(i)
		}
		offs := sizes.Offsetsof(fields)
		for i, f := range fields {
			s[i] = st.loadAt(o, off+offs[i], f.Type())
		}
		return s
	case *types.Array:
		es := sizeof(u.Elem())
		a := make(ArrV, u.Len())
		for i := range a {
			a[i] = st.loadAt(o, off+int64(i)*es, u.Elem())
		}
		return a
	}
	panic(fmt.Sprintf("loadAt %s", t))
}

func mkIface(tw, dw Value) Value {
	if o, ok := tw.(Opaque); ok {
		return o
	}
	switch t := tw.(type) {
	case Ptr:
		if t.IsNil() {
			return IfaceV{}
		}
	case TypeV:
		d := dw
		if b, ok := dw.(BoxV); ok {
			d = b.V
		}
		return IfaceV{T: t.T, D: d}
	}
	panic(cutErr{fmt.Sprintf("bad interface type word %T", tw)})
}

func (st *State) mkStr(pv, lv Value) Value {
	if o, ok := pv.(Opaque); ok {
		return o
	}
	if o, ok := lv.(Opaque); ok {
		return o
	}
	n := st.concreteInt(lv.(*Term), "string length")
	p, ok := pv.(Ptr)
	if !ok {
		panic(cutErr{fmt.Sprintf("string data %T", pv)})
	}
	return StrV{P: p, Len: n}
}

func (st *State) mkSlice(pv, lv, cv Value) Value {
	for _, v := range []Value{pv, lv, cv} {
		if o, ok := v.(Opaque); ok {
			return o
		}
	}
	n := st.concreteInt(lv.(*Term), "slice length")
	c := st.concreteInt(cv.(*Term), "slice cap")
	p, ok := pv.(Ptr)
	if !ok {
		panic(cutErr{fmt.Sprintf("slice data %T", pv)})
	}
	return SliceV{P: p, Len: n, Cap: c}
}

// store writes v of type t at p.
func (st *State) store(p Ptr, t types.Type, v Value) {
	if p.Sym != nil {
		st.storeSym(p, t, v)
		return
	}
	o := st.deref(p)
	st.storeAt(o.ID, p.Off, t, v)
}

func (st *State) storeAt(id int, off int64, t types.Type, v Value) {
	if op, ok := v.(Opaque); ok {
		// poison every leaf
		for _, l := range leavesOf(t) {
			st.storeLeaf(id, off+l.Off, l, op)
		}
		return
	}
	switch u := t.Underlying().(type) {
	case *types.Basic:
		switch {
		case u.Info()&types.IsString != 0:
			s := v.(StrV)
			st.storeLeaf(id, off, Leaf{0, LPtr, 8}, normPtr(s.P, s.Len))
			st.storeLeaf(id, off+8, Leaf{0, LInt, 8}, Const(64, uint64(s.Len)))
			return
		case u.Info()&types.IsComplex != 0:
			w := int(sizeof(t) / 2)
			s := v.(StructV)
			st.storeLeaf(id, off, Leaf{0, LInt, w}, s[0])
			st.storeLeaf(id, off+int64(w), Leaf{0, LInt, w}, s[1])
			return
		}
		st.storeLeaf(id, off, leavesOf(t)[0], v)
	case *types.Pointer, *types.Map, *types.Chan, *types.Signature:
		st.storeLeaf(id, off, Leaf{0, LPtr, 8}, v)
	case *types.Slice:
		s := v.(SliceV)
		st.storeLeaf(id, off, Leaf{0, LPtr, 8}, s.P)
		st.storeLeaf(id, off+8, Leaf{0, LInt, 8}, Const(64, uint64(s.Len)))
		st.storeLeaf(id, off+16, Leaf{0, LInt, 8}, Const(64, uint64(s.Cap)))
	case *types.Interface:
		iv := v.(IfaceV)
		if iv.T == nil {
			st.storeLeaf(id, off, Leaf{0, LPtr, 8}, NilPtr)
			st.storeLeaf(id, off+8, Leaf{0, LPtr, 8}, NilPtr)
			return
		}
		st.storeLeaf(id, off, Leaf{0, LPtr, 8}, TypeV{iv.T})
		if pointerShaped(iv.T) {
			st.storeLeaf(id, off+8, Leaf{0, LPtr, 8}, iv.D)
		} else {
			st.storeLeaf(id, off+8, Leaf{0, LPtr, 8}, BoxV{iv.D})
		}
	case *types.Struct:
		s := v.(StructV)
		if len(s) == 0 {
			return
		}
		fields := make([]*types.Var, u.NumFields())
		for i := range fields {
			fields[i] = u.Field(i)
		}
		offs := sizes.Offsetsof(fields)
		for i, f := range fields {
			st.storeAt(id, off+offs[i], f.Type(), s[i])
		}
	case *types.Array:
		es := sizeof(u.Elem())
		a := v.(ArrV)
		for i := range a {
			st.storeAt(id, off+int64(i)*es, u.Elem(), a[i])
		}
	default:
		panic(fmt.Sprintf("storeAt %s", t))
	}
}

// normPtr: empty strings/slices may carry any pointer; keep as is.
func normPtr(p Ptr, n int64) Value { return p }

// ---------- symbolic-offset access (byte granular ite chains) ----------

func (st *State) symOffsets(p Ptr) []int64 {
	var ks []int64
	step := p.SymStep
	if step <= 0 {
		step = 1
	}
	for k := p.SymLo; k <= p.SymHi; k += step {
		ks = append(ks, k)
	}
	if len(ks) > 4096 {
		panic(cutErr{"symbolic offset range too large"})
	}
	return ks
}

func (st *State) loadSym(p Ptr, t types.Type) Value {
	ls := leavesOf(t)
	if len(ls) != 1 || (ls[0].K != LInt && ls[0].K != LBool) {
		// fall back to case split
		k := st.concreteInt(p.Sym, "symbolic pointer offset")
		return st.load(Ptr{Obj: p.Obj, Off: p.Off + k}, t)
	}
	o := st.deref(p)
	ks := st.symOffsets(p)
	vals := make([]*Term, len(ks))
	for i := range ks {
		v := st.loadLeaf(o, p.Off+ks[i], ls[0])
		tv, ok := v.(*Term)
		if !ok {
			panic(cutErr{"opaque cell under symbolic index"})
		}
		vals[i] = tv
	}
	return iteRuns(p.Sym, ks, vals)
}

// iteRuns builds the value selected by sym over offsets ks (ascending), merging runs of
// identical values into range tests (tables such as utf8.first have a dozen runs).
func iteRuns(sym *Term, ks []int64, vals []*Term) *Term {
	n := len(ks)
	res := vals[n-1]
	for i := n - 2; i >= 0; i-- {
		if vals[i] == vals[i+1] {
			continue
		}
		// run ending at i: sym < ks[i+1] selects vals[i] (earlier, different runs are tested first)
		res = Ite(Ult(sym, Const(sym.W, uint64(ks[i+1]))), vals[i], res)
	}
	return res
}

func (st *State) storeSym(p Ptr, t types.Type, v Value) {
	ls := leavesOf(t)
	tv, isT := v.(*Term)
	if len(ls) != 1 || !isT || (ls[0].K != LInt && ls[0].K != LBool) {
		k := st.concreteInt(p.Sym, "symbolic pointer offset")
		st.store(Ptr{Obj: p.Obj, Off: p.Off + k}, t, v)
		return
	}
	o := st.deref(p)
	for _, k := range st.symOffsets(p) {
		old := st.loadLeaf(st.heap.get(o.ID), p.Off+k, ls[0]).(*Term)
		st.storeLeaf(o.ID, p.Off+k, ls[0], Ite(Eq(p.Sym, Const(64, uint64(k))), tv, old))
	}
}

// ---------- byte helpers ----------

// bytesOf returns the n byte terms at p.
func (st *State) bytesOf(p Ptr, n int64) []*Term {
	if n == 0 {
		return nil
	}
	if p.Sym != nil {
		k := st.concreteInt(p.Sym, "symbolic slice base")
		p = Ptr{Obj: p.Obj, Off: p.Off + k}
	}
	o := st.deref(p)
	out := make([]*Term, n)
	for i := int64(0); i < n; i++ {
		v := st.loadLeaf(o, p.Off+i, Leaf{0, LInt, 1})
		t, ok := v.(*Term)
		if !ok {
			panic(cutErr{"opaque byte"})
		}
		out[i] = t
	}
	return out
}

func (st *State) newBytes(bs []*Term, name string) Ptr {
	if len(bs) == 0 {
		return NilPtr
	}
	o := st.heap.alloc(int64(len(bs)), nil, name)
	for i, b := range bs {
		o.Cells[int64(i)] = Cell{1, b}
	}
	return Ptr{Obj: o.ID}
}

func (st *State) newString(bs []*Term) StrV {
	if len(bs) == 0 {
		return StrV{}
	}
	p := st.newBytes(bs, "string")
	return StrV{P: p, Len: int64(len(bs))}
}

func (st *State) strBytes(s StrV) []*Term { return st.bytesOf(s.P, s.Len) }

// concrete string if all bytes constant
func (st *State) concreteString(s StrV) (string, bool) {
	bs := st.strBytes(s)
	out := make([]byte, len(bs))
	for i, b := range bs {
		if !b.IsConst() {
			return "", false
		}
		out[i] = byte(b.C)
	}
	return string(out), true
}

func sortedOffsets(o *Obj) []int64 {
	ks := make([]int64, 0, len(o.Cells))
	for k := range o.Cells {
		ks = append(ks, k)
	}
	sort.Slice(ks, func(i, j int) bool { return ks[i] < ks[j] })
	return ks
}
