package main

import (
	"fmt"
	"os"
)

var debugPub = os.Getenv("VERIF_PUBDEBUG") != ""

// Publication log: ordering observations for write-once publication (C18).
//
// Every atomic pointer write (Store/Swap/CompareAndSwap of a non-nil pointer) into a shared cell is a publication:
// other goroutines may read the pointer from then on without further synchronisation. The
// engine snapshots every writable object reachable from the published pointer at that moment;
// nd.PublishedFrozen() later states that none of those objects was written by a plain
// (non-atomic) store since. Atomic writes into a published object (size caches, presence
// words, nested publications) are legal and refresh the snapshot.

type pubRec struct {
	root int
	objs map[int]*Obj // snapshot (clones) at publication time
}

const pubMaxObjs = 256

func (st *State) atomicWrote(cell Ptr, v Value) {
	if st.pubMark == 0 {
		return
	}
	// an atomic write into an already published object is allowed: refresh its snapshots
	for i := range st.pubs {
		if _, ok := st.pubs[i].objs[cell.Obj]; ok {
			n := make(map[int]*Obj, len(st.pubs[i].objs))
			for k, o := range st.pubs[i].objs {
				n[k] = o
			}
			n[cell.Obj] = st.heap.get(cell.Obj).clone()
			st.pubs[i].objs = n
		}
	}
	p, ok := v.(Ptr)
	if !ok || p.IsNil() {
		return
	}
	// Only a write into a cell other goroutines can already reach is a publication: the cell
	// lies in an object that existed before the mark, or in an object published earlier. An
	// atomic write into a private, still unpublished object (consumeOpaqueMessage allocating a
	// child inside the temporary being built) is not.
	shared := cell.Obj <= st.pubMark
	for i := range st.pubs {
		if _, ok := st.pubs[i].objs[cell.Obj]; ok {
			shared = true
		}
	}
	if !shared {
		return
	}
	rec := pubRec{root: p.Obj, objs: map[int]*Obj{}}
	var walk func(id int)
	walk = func(id int) {
		if id == 0 || len(rec.objs) >= pubMaxObjs {
			return
		}
		if _, seen := rec.objs[id]; seen {
			return
		}
		o := st.heap.objOrNil(id)
		if o == nil || o.ReadOnly || o.Lazy != nil || o.OpaqueBg {
			return
		}
		if st.pubMark == 0 || id <= st.pubMark {
			return // allocated before nd.PublishLogStart: not built by the publishing operation
		}
		rec.objs[id] = o.clone()
		for _, c := range o.Cells {
			if q, ok := c.V.(Ptr); ok && !q.IsNil() {
				walk(q.Obj)
			}
		}
		for _, e := range o.Map {
			if q, ok := e.V.(Ptr); ok && !q.IsNil() {
				walk(q.Obj)
			}
		}
	}
	walk(p.Obj)
	if len(rec.objs) > 0 {
		st.pubs = append(st.pubs, rec)
	}
}

// pubFrozen returns a formula that is true iff no snapshot object differs from the current heap.
func (st *State) pubFrozen() *Term {
	res := TTrue
	for _, rec := range st.pubs {
		for id, snap := range rec.objs {
			cur := st.heap.objOrNil(id)
			if cur == nil {
				continue
			}
			if len(cur.Map) != len(snap.Map) {
				return TFalse
			}
			for off, c := range cur.Cells {
				sc, ok := snap.Cells[off]
				if !ok {
					// a cell that did not exist at publication: written since, unless it holds the zero value
					if isZeroCell(c) {
						continue
					}
					if debugPub {
						fmt.Printf("PUBDIFF obj=%d(%s %v) new cell off=%d cur=%v\n", id, cur.Name, cur.Typ, off, c.V)
					}
					return TFalse
				}
				same := cellSame(sc, c)
				if debugPub && same != TTrue {
					fmt.Printf("PUBDIFF obj=%d(%s %v) off=%d snap=%v cur=%v\n", id, cur.Name, cur.Typ, off, sc.V, c.V)
				}
				res = BAnd(res, same)
			}
			for off, sc := range snap.Cells {
				if _, ok := cur.Cells[off]; !ok && !isZeroCell(sc) {
					return TFalse
				}
			}
		}
	}
	return res
}

func isZeroCell(c Cell) bool {
	switch v := c.V.(type) {
	case *Term:
		return v.IsConst() && v.ConstVal() == 0
	case Ptr:
		return v.IsNil()
	}
	return false
}

func cellSame(a, b Cell) *Term {
	if a.W != b.W {
		return TFalse
	}
	switch x := a.V.(type) {
	case *Term:
		y, ok := b.V.(*Term)
		if !ok {
			if q, isP := b.V.(Ptr); isP && q.IsNil() && x.IsConst() && x.ConstVal() == 0 {
				return TTrue
			}
			return TFalse
		}
		if x == y {
			return TTrue
		}
		if x.W != y.W {
			return TFalse
		}
		return Eq(x, y)
	case Ptr:
		y, ok := b.V.(Ptr)
		if !ok {
			if t, isT := b.V.(*Term); isT && x.IsNil() && t.IsConst() && t.ConstVal() == 0 {
				return TTrue
			}
			return TFalse
		}
		if x.Obj == y.Obj && x.Off == y.Off && x.Sym == y.Sym {
			return TTrue
		}
		return TFalse
	case FuncV:
		y, ok := b.V.(FuncV)
		return Bool(ok && x.Fn == y.Fn && x.ID == y.ID)
	case TypeV:
		y, ok := b.V.(TypeV)
		return Bool(ok && sameType(x.T, y.T))
	}
	return TTrue // boxed / opaque values: not compared
}
