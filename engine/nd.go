package main

import (
	"sync/atomic"
	"encoding/hex"
	"fmt"
	"go/types"
	"strconv"

	"golang.org/x/tools/go/ssa"
)

type VecEntry struct {
	K string `json:"k"`
	V string `json:"v"`
}

func (w *Worker) memo(f *Frame, mk func() Value) Value {
	k := f.scratchN
	f.scratchN++
	if v, ok := f.scratch[k]; ok {
		return v
	}
	v := mk()
	if f.scratch == nil {
		f.scratch = map[int]Value{}
	}
	f.scratch[k] = v
	return v
}

// vectorOf evaluates the nd log under a model.
func (st *State) vectorOf(m Model) []VecEntry {
	if m == nil {
		m = Model{}
	}
	out := make([]VecEntry, 0, len(st.nd))
	for _, e := range st.nd {
		switch e.Kind {
		case "bytes", "string":
			b := make([]byte, len(e.Terms))
			for i, t := range e.Terms {
				b[i] = byte(Eval(t, m))
			}
			out = append(out, VecEntry{e.Kind, hex.EncodeToString(b)})
		default:
			v := Eval(e.Terms[0], m)
			out = append(out, VecEntry{e.Kind, strconv.FormatUint(v, 10)})
		}
	}
	return out
}

func (w *Worker) modelFor(st *State) Model {
	if st.model != nil {
		return st.model
	}
	if w.sol == nil {
		return Model{}
	}
	r, m := w.check(st, TTrue)
	if r == "sat" {
		st.model = m
		return m
	}
	return nil
}

func (w *Worker) recordViolation(st *State, kind, label, msg string, m Model) {
	r := w.e.res
	r.mu.Lock()
	defer r.mu.Unlock()
	n := 0
	for _, v := range r.Violations {
		if v.Label == label {
			n++
		}
	}
	if n >= 2 || len(r.Violations) >= 12 {
		return
	}
	r.Violations = append(r.Violations, &Violation{Harness: r.Name, Label: label, Kind: kind, Msg: msg, Vector: st.vectorOf(m), Stack: st.stack()})
}

func (w *Worker) escapedPanic(st *State) {
	msg := st.pan.msg
	if iv, ok := st.pan.val.(IfaceV); ok && iv.T != nil {
		msg += " value of type " + iv.T.String()
		if s, ok := iv.D.(StrV); ok {
			if cs, ok := st.concreteString(s); ok {
				msg += ": " + cs
			}
		}
	}
	if st.approx {
		w.cut(st, "panic on a path with unknown feasibility")
		return
	}
	m := w.modelFor(st)
	if m == nil {
		w.cut(st, "panic path without model")
		return
	}
	w.recordViolation(st, "panic", "panic", msg, m)
}

func (w *Worker) pathDone(st *State) {
	r := w.e.res
	r.mu.Lock()
	need := len(r.Samples) < 3
	r.mu.Unlock()
	if need && len(st.nd) > 0 {
		if m := w.modelFor(st); m != nil {
			s := &VecSample{Harness: r.Name, Vector: st.vectorOf(m)}
			r.mu.Lock()
			if len(r.Samples) < 3 {
				r.Samples = append(r.Samples, s)
			}
			r.mu.Unlock()
		}
	}
}

func ndName(n string) string { return ndPath + "." + n }

func init() {
	scalar := func(kind string, w int, isBool bool) intrinsic {
		return func(wk *Worker, st *State, f *Frame, x *ssa.Call, fv FuncV, a []Value) (Value, bool) {
			if isBool {
				b := st.fresh(8, "nd_"+kind)
				st.assume(Ule(b, Const(8, 1)))
				st.nd = append(st.nd, NDEntry{Kind: kind, Terms: []*Term{b}})
				return ret(Eq(b, Const(8, 1)))
			}
			t := st.fresh(w, "nd_"+kind)
			st.nd = append(st.nd, NDEntry{Kind: kind, Terms: []*Term{t}})
			return ret(t)
		}
	}
	regIntrinsic(ndName("Uint64"), scalar("u64", 64, false))
	regIntrinsic(ndName("Int64"), scalar("i64", 64, false))
	regIntrinsic(ndName("Uint32"), scalar("u32", 32, false))
	regIntrinsic(ndName("Int32"), scalar("i32", 32, false))
	regIntrinsic(ndName("Uint16"), scalar("u16", 16, false))
	regIntrinsic(ndName("Byte"), scalar("u8", 8, false))
	regIntrinsic(ndName("Bool"), scalar("bool", 8, true))
	regIntrinsic(ndName("Float64"), scalar("f64", 64, false))
	regIntrinsic(ndName("Float32"), scalar("f32", 32, false))

	regIntrinsic(ndName("Int"), func(w *Worker, st *State, f *Frame, x *ssa.Call, fv FuncV, a []Value) (Value, bool) {
		lo := st.concreteInt(needTerm(a[0], "nd.Int"), "nd.Int lo")
		hi := st.concreteInt(needTerm(a[1], "nd.Int"), "nd.Int hi")
		v := w.memo(f, func() Value {
			t := st.fresh(64, "nd_int")
			st.assume(BAnd(Sle(Const(64, uint64(lo)), t), Sle(t, Const(64, uint64(hi)))))
			if st.model != nil {
				st.model = nil // the default 0 may violate the range
			}
			return t
		}).(*Term)
		k := st.concreteInt(v, "nd.Int")
		st.nd = append(st.nd, NDEntry{Kind: "int", Terms: []*Term{Const(64, uint64(k))}})
		return ret(Const(64, uint64(k)))
	})

	bytesI := func(kind string, exact bool, isStr bool) intrinsic {
		return func(w *Worker, st *State, f *Frame, x *ssa.Call, fv FuncV, a []Value) (Value, bool) {
			mx := st.concreteInt(needTerm(a[0], "nd.Bytes"), "nd.Bytes max")
			n := mx
			if !exact {
				v := w.memo(f, func() Value {
					t := st.fresh(64, "nd_len")
					st.assume(Ule(t, Const(64, uint64(mx))))
					return t
				}).(*Term)
				n = st.concreteInt(v, "nd.Bytes length")
			}
			bs := make([]*Term, n)
			for i := range bs {
				bs[i] = st.fresh(8, "in")
			}
			st.nd = append(st.nd, NDEntry{Kind: kind, Terms: bs})
			if isStr {
				return ret(st.newString(bs))
			}
			if n == 0 {
				return ret(SliceV{})
			}
			p := st.newBytes(bs, "nd.Bytes")
			return ret(SliceV{P: p, Len: n, Cap: n})
		}
	}
	regIntrinsic(ndName("Bytes"), bytesI("bytes", false, false))
	regIntrinsic(ndName("BytesN"), bytesI("bytes", true, false))
	regIntrinsic(ndName("String"), bytesI("string", false, true))
	regIntrinsic(ndName("StringN"), bytesI("string", true, true))

	regIntrinsic(ndName("Assume"), func(w *Worker, st *State, f *Frame, x *ssa.Call, fv FuncV, a []Value) (Value, bool) {
		c := needTerm(a[0], "nd.Assume")
		if c.IsConst() {
			if c.Op == OpFalse {
				panic(cutErr{"INFEASIBLE"})
			}
			return nil, true
		}
		if v, ok := st.known[c]; ok {
			if v == 0 {
				panic(cutErr{"INFEASIBLE"})
			}
			return nil, true
		}
		if mv, have := st.evalModel(c); have && mv != 0 {
			st.assume(c)
			st.known[c] = 1
			return nil, true
		}
		r, m := w.check(st, c)
		switch r {
		case "unsat":
			panic(cutErr{"INFEASIBLE"})
		case "sat":
			st.model = m
		default:
			st.model = nil
			st.approx = true
			w.noteUnknown()
		}
		st.assume(c)
		st.known[c] = 1
		return nil, true
	})

	regIntrinsic(ndName("Assert"), func(w *Worker, st *State, f *Frame, x *ssa.Call, fv FuncV, a []Value) (Value, bool) {
		label := "?"
		if s, ok := a[1].(StrV); ok {
			if cs, ok := st.concreteString(s); ok {
				label = cs
			}
		}
		if o, ok := a[0].(Opaque); ok {
			panic(cutErr{"assert on opaque value (" + label + "): " + o.Why})
		}
		c := needTerm(a[0], "nd.Assert")
		r := w.e.res
		r.mu.Lock()
		r.Asserts++
		r.mu.Unlock()
		if c.Op == OpTrue {
			r.mu.Lock()
			r.AssertsUnsat++
			r.mu.Unlock()
			return nil, true
		}
		if st.approx {
			// path feasibility itself is unknown: do not report from here
			r.mu.Lock()
			r.AssertsUnk++
			r.mu.Unlock()
			return nil, true
		}
		var m Model
		viol := false
		if c.Op == OpFalse {
			m = w.modelFor(st)
			viol = m != nil
		} else if mv, have := st.evalModel(c); have && mv == 0 {
			m, viol = st.model, true
		} else {
			res, mm := w.check(st, BNot(c))
			switch res {
			case "sat":
				m, viol = mm, true
			case "unsat":
				r.mu.Lock()
				r.AssertsUnsat++
				r.mu.Unlock()
			default:
				r.mu.Lock()
				r.AssertsUnk++
				r.mu.Unlock()
			}
		}
		if viol {
			w.recordViolation(st, "assert", label, "assertion can fail", m)
			// continue on the side where the assertion holds
			if c.Op == OpFalse {
				panic(cutErr{"INFEASIBLE"})
			}
			res, mm := w.check(st, c)
			if res != "sat" {
				panic(cutErr{"INFEASIBLE"})
			}
			st.model = mm
		}
		st.assume(c)
		return nil, true
	})

	regIntrinsic(ndName("Reach"), func(w *Worker, st *State, f *Frame, x *ssa.Call, fv FuncV, a []Value) (Value, bool) {
		label, _ := st.concreteString(a[0].(StrV))
		r := w.e.res
		r.mu.Lock()
		_, have := r.Reached[label]
		r.mu.Unlock()
		if !have && !st.approx {
			if m := w.modelFor(st); m != nil {
				s := &VecSample{Harness: r.Name, Marker: label, Vector: st.vectorOf(m)}
				r.mu.Lock()
				if _, have := r.Reached[label]; !have {
					r.Reached[label] = s
				}
				r.mu.Unlock()
			}
		}
		return nil, true
	})
	regIntrinsic(ndName("Observe"), func(w *Worker, st *State, f *Frame, x *ssa.Call, fv FuncV, a []Value) (Value, bool) {
		return nil, true
	})
	regIntrinsic(ndName("ExpectPanic"), func(w *Worker, st *State, f *Frame, x *ssa.Call, fv FuncV, a []Value) (Value, bool) {
		return nil, true
	})
	regIntrinsic(ndName("IsOpaque"), func(w *Worker, st *State, f *Frame, x *ssa.Call, fv FuncV, a []Value) (Value, bool) {
		_, op := a[0].(Opaque)
		return ret(Bool(op))
	})
	regIntrinsic(ndName("MulAddClamp64"), func(w *Worker, st *State, f *Frame, x *ssa.Call, fv FuncV, a []Value) (Value, bool) {
		p := Add(Mul(SExt(needTerm(a[0], "spec"), 128), SExt(needTerm(a[1], "spec"), 128)), SExt(needTerm(a[2], "spec"), 128))
		maxv := SExt(Const(64, 0x7fffffffffffffff), 128)
		minv := SExt(Const(64, 0x8000000000000000), 128)
		r := Ite(Slt(maxv, p), Const(64, 0x7fffffffffffffff), Ite(Slt(p, minv), Const(64, 0x8000000000000000), Extract(p, 63, 0)))
		return ret(r)
	})
	// detrand.Bool is a deliberate nondeterminism source (output must be robust to it): fresh symbolic bool.
	// (Not recorded in the replay vector: a counterexample that depends on it may not reproduce natively,
	// in which case it is reported as an encoder disagreement, never as a violation.)
	regIntrinsic("google.golang.org/protobuf/internal/detrand.Bool", func(w *Worker, st *State, f *Frame, x *ssa.Call, fv FuncV, a []Value) (Value, bool) {
		b := st.fresh(8, "detrand")
		st.assume(Ule(b, Const(8, 1)))
		return ret(Eq(b, Const(8, 1)))
	})
	regIntrinsic(ndName("PublishLogStart"), func(w *Worker, st *State, f *Frame, x *ssa.Call, fv FuncV, a []Value) (Value, bool) {
		st.pubMark = int(atomic.LoadInt64(&objSeq))
		st.pubs = nil
		return nil, true
	})
	regIntrinsic(ndName("Publications"), func(w *Worker, st *State, f *Frame, x *ssa.Call, fv FuncV, a []Value) (Value, bool) {
		return ret(Const(64, uint64(len(st.pubs))))
	})
	regIntrinsic(ndName("PublishedFrozen"), func(w *Worker, st *State, f *Frame, x *ssa.Call, fv FuncV, a []Value) (Value, bool) {
		return ret(st.pubFrozen())
	})
	regIntrinsic(ndName("Thorough"), func(w *Worker, st *State, f *Frame, x *ssa.Call, fv FuncV, a []Value) (Value, bool) {
		return ret(Bool(theTier == "thorough"))
	})
	regIntrinsic(ndName("sliceLen"), func(w *Worker, st *State, f *Frame, x *ssa.Call, fv FuncV, a []Value) (Value, bool) {
		iv := a[0].(IfaceV)
		return ret(Const(64, uint64(iv.D.(SliceV).Len)))
	})
	regIntrinsic(ndName("swapElems"), func(w *Worker, st *State, f *Frame, x *ssa.Call, fv FuncV, a []Value) (Value, bool) {
		iv := a[0].(IfaceV)
		s := iv.D.(SliceV)
		et := iv.T.Underlying().(*types.Slice).Elem()
		es := sizeof(et)
		i := st.concreteInt(needTerm(a[1], "swap"), "swap i")
		j := st.concreteInt(needTerm(a[2], "swap"), "swap j")
		pi := Ptr{Obj: s.P.Obj, Off: s.P.Off + i*es}
		pj := Ptr{Obj: s.P.Obj, Off: s.P.Off + j*es}
		vi, vj := st.load(pi, et), st.load(pj, et)
		st.store(pi, et, vj)
		st.store(pj, et, vi)
		return nil, true
	})
}

var theTier = "quick"

func fmtVec(v []VecEntry) string {
	s := ""
	for _, e := range v {
		s += fmt.Sprintf(" %s=%s", e.K, e.V)
	}
	return s
}
