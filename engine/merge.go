package main

// Function-level state merging: a call to a pure callee with scalar results is explored
// in isolation and its per-path results are merged into ite terms, so that callee paths
// do not multiply with the caller's (guidance: "summarise pure callees").

import (
	"go/types"
	"strings"
	"sync"

	"golang.org/x/tools/go/ssa"
)

var noMerge sync.Map // *ssa.Function -> reason

const (
	mergeMaxPaths = 40
	mergeMaxSteps = 60000
	mergeMaxDepth = 3
)

func mergeCandidate(fn *ssa.Function) bool {
	if fn.Blocks == nil || len(fn.Blocks) < 2 {
		return false
	}
	if _, bad := noMerge.Load(fn); bad {
		return false
	}
	res := fn.Signature.Results()
	if res.Len() == 0 {
		return false
	}
	for i := 0; i < res.Len(); i++ {
		b, ok := res.At(i).Type().Underlying().(*types.Basic)
		if !ok || b.Info()&(types.IsBoolean|types.IsInteger|types.IsFloat) == 0 {
			return false
		}
	}
	if fn.Pkg != nil && fn.Pkg.Pkg.Path() == ndPath {
		return false
	}
	return true
}

type subOutcome struct {
	rv    Value
	conds []*Term
}

// tryMerge explores fn(args) from st in isolation. On success it returns the merged result.
func (w *Worker) tryMerge(st *State, fv FuncV, args []Value) (Value, bool) {
	if w.subDepth >= mergeMaxDepth {
		return nil, false
	}
	fail := func(why string) (Value, bool) {
		noMerge.Store(fv.Fn, why)
		if debugMerge {
			println("merge failed:", fv.Fn.String(), why)
		}
		return nil, false
	}
	entryID := int(objSeq)
	root := st.clone()
	root.frames = []*Frame{newFrame(fv.Fn, args, fv.Bind, retTop)}
	root.sub = true
	root.steps = 0
	basePC := st.pc
	ndLen := len(st.nd)
	symLen := len(st.syms)
	rootObjs := make(map[int]*Obj, len(root.heap.objs))
	for id, o := range root.heap.objs {
		rootObjs[id] = o
	}

	saved := w.local
	w.local = []*State{root}
	w.subDepth++
	w.funcs[fv.Fn.String()] = true
	defer func() {
		w.local = saved
		w.subDepth--
	}()
	var outs []subOutcome
	steps := 0
	for len(w.local) > 0 {
		s := w.local[len(w.local)-1]
		w.local = w.local[:len(w.local)-1]
		why := w.runSubPath(s)
		steps += s.steps
		if why != "" {
			if why == "INFEASIBLE" {
				continue
			}
			return fail(why)
		}
		if s.approx || len(s.nd) != ndLen || len(s.syms) != symLen {
			return fail("nondeterminism or unknown inside callee")
		}
		// purity: no pre-existing object may have been modified
		for id, o := range s.heap.objs {
			if id > entryID {
				continue
			}
			if ro, ok := rootObjs[id]; !ok || ro != o {
				return fail("callee writes to caller-visible memory")
			}
		}
		var conds []*Term
		for p := s.pc; p != basePC; p = p.parent {
			if p == nil {
				return fail("path condition lost")
			}
			conds = append(conds, p.t)
		}
		outs = append(outs, subOutcome{rv: s.retVal, conds: conds})
		if len(outs) > mergeMaxPaths || steps > mergeMaxSteps {
			return fail("too many paths")
		}
	}
	if len(outs) == 0 {
		return fail("no path")
	}
	// merge
	merged, ok := mergeValues(outs)
	if !ok {
		return fail("results not mergeable")
	}
	w.e.res.mu.Lock()
	w.e.res.Merges++
	w.e.res.mu.Unlock()
	return merged, true
}

var debugMerge = false

func condOf(o subOutcome) *Term {
	c := TTrue
	for _, t := range o.conds {
		c = BAnd(t, c)
	}
	return c
}

func mergeValues(outs []subOutcome) (Value, bool) {
	switch first := outs[0].rv.(type) {
	case *Term:
		res := first
		for i := 1; i < len(outs); i++ {
			t, ok := outs[i].rv.(*Term)
			if !ok || t.W != first.W {
				return nil, false
			}
			res = Ite(condOf(outs[i]), t, res)
		}
		return res, true
	case Tuple:
		n := len(first)
		res := make(Tuple, n)
		for k := 0; k < n; k++ {
			sub := make([]subOutcome, len(outs))
			for i, o := range outs {
				tu, ok := o.rv.(Tuple)
				if !ok || len(tu) != n {
					return nil, false
				}
				sub[i] = subOutcome{rv: tu[k], conds: o.conds}
			}
			v, ok := mergeValues(sub)
			if !ok {
				return nil, false
			}
			res[k] = v
		}
		return res, true
	}
	return nil, false
}

// runSubPath runs one path of an isolated exploration; "" means it returned normally.
func (w *Worker) runSubPath(st *State) (why string) {
	defer func() {
		r := recover()
		if r == nil {
			return
		}
		switch x := r.(type) {
		case cutErr:
			why = x.why
			if why == "" {
				why = "cut"
			}
		case doneErr:
			why = ""
		case forkedErr:
			why = "fork"
		default:
			panic(r)
		}
	}()
	for {
		if st.steps > mergeMaxSteps {
			panic(cutErr{"callee too long"})
		}
		w.step(st)
	}
}

func isNdCall(name string) bool { return strings.HasPrefix(name, ndPath+".") }

var _ = ssa.BuilderMode(0)
