package main

// Hash-consed SMT term DAG (QF_BV + a few FP predicates) with constant folding.

import (
	"fmt"
	"math"
	"math/bits"
	"strings"
	"sync"
)

type Op uint8

const (
	OpConst Op = iota // BV constant (w<=64) in C
	OpTrue
	OpFalse
	OpSym // free symbol; w==0 => Bool
	OpAdd
	OpSub
	OpMul
	OpUDiv
	OpSDiv
	OpURem
	OpSRem
	OpAnd
	OpOr
	OpXor
	OpNot
	OpNeg
	OpShl
	OpLShr
	OpAShr
	OpConcat  // args[0] high, args[1] low
	OpExtract // C = hi<<8|lo
	OpZExt
	OpSExt
	OpIte
	OpEq // BV or Bool args, Bool result
	OpUlt
	OpUle
	OpSlt
	OpSle
	OpBAnd
	OpBOr
	OpBNot
	// floating point on bit patterns (arg widths 32 or 64)
	OpFEq // IEEE ==
	OpFLt
	OpFLe
	OpFIsNaN
	OpFCvt   // float width change: arg width -> w (round nearest even)
	OpSIToF  // signed int (arg width) -> float w
	OpUIToF  // unsigned
	OpFToSI  // float -> signed int w (round toward zero); unspecified when out of range
	OpFToUI  // float -> unsigned int w
	OpFAdd
	OpFSub
	OpFMul
	OpFDiv
	OpFNeg
)

type Term struct {
	Op   Op
	W    int // bit width; 0 = Bool
	Args []*Term
	C    uint64
	Name string
	ID   int
}

type termKey struct {
	op         Op
	w          int
	c          uint64
	a0, a1, a2 int
	name       string
}

var (
	termMu    sync.Mutex
	termTab   = map[termKey]*Term{}
	termCount int
	TTrue     = mk(OpTrue, 0, 0, "")
	TFalse    = mk(OpFalse, 0, 0, "")
)

func mk(op Op, w int, c uint64, name string, args ...*Term) *Term {
	k := termKey{op: op, w: w, c: c, name: name, a0: -1, a1: -1, a2: -1}
	if len(args) > 0 {
		k.a0 = args[0].ID
	}
	if len(args) > 1 {
		k.a1 = args[1].ID
	}
	if len(args) > 2 {
		k.a2 = args[2].ID
	}
	termMu.Lock()
	defer termMu.Unlock()
	if t, ok := termTab[k]; ok {
		return t
	}
	termCount++
	t := &Term{Op: op, W: w, C: c, Name: name, ID: termCount}
	if len(args) > 0 {
		t.Args = append([]*Term(nil), args...)
	}
	termTab[k] = t
	return t
}

func wmask(w int) uint64 {
	if w >= 64 {
		return ^uint64(0)
	}
	return (uint64(1) << uint(w)) - 1
}

func sext64(v uint64, w int) int64 {
	if w < 64 && v&(1<<uint(w-1)) != 0 {
		return int64(v | ^wmask(w))
	}
	return int64(v)
}

func Const(w int, c uint64) *Term {
	if w > 64 {
		return ZExt(Const(64, c), w)
	}
	return mk(OpConst, w, c&wmask(w), "")
}
func Bool(b bool) *Term {
	if b {
		return TTrue
	}
	return TFalse
}

var symSeq int
var symMu sync.Mutex

func NewSym(w int, hint string) *Term {
	symMu.Lock()
	symSeq++
	n := symSeq
	symMu.Unlock()
	hint = strings.Map(func(r rune) rune {
		if r >= 'a' && r <= 'z' || r >= 'A' && r <= 'Z' || r >= '0' && r <= '9' || r == '_' {
			return r
		}
		return '_'
	}, hint)
	return mk(OpSym, w, 0, fmt.Sprintf("%s!%d", hint, n))
}

func (t *Term) IsConst() bool { return t.Op == OpConst || t.Op == OpTrue || t.Op == OpFalse }
func (t *Term) IsBool() bool  { return t.W == 0 }

// ConstVal returns the constant value (1/0 for bools).
func (t *Term) ConstVal() uint64 {
	switch t.Op {
	case OpTrue:
		return 1
	case OpFalse:
		return 0
	}
	return t.C
}

func bin(op Op, a, b *Term) *Term {
	if a.W != b.W {
		panic(fmt.Sprintf("width mismatch op %d: %d vs %d", op, a.W, b.W))
	}
	w := a.W
	if a.Op == OpConst && b.Op == OpConst && w <= 64 {
		x, y := a.C, b.C
		switch op {
		case OpAdd:
			return Const(w, x+y)
		case OpSub:
			return Const(w, x-y)
		case OpMul:
			return Const(w, x*y)
		case OpAnd:
			return Const(w, x&y)
		case OpOr:
			return Const(w, x|y)
		case OpXor:
			return Const(w, x^y)
		case OpUDiv:
			if y != 0 {
				return Const(w, x/y)
			}
		case OpURem:
			if y != 0 {
				return Const(w, x%y)
			}
		case OpSDiv:
			if y != 0 {
				sx, sy := sext64(x, w), sext64(y, w)
				if sy == -1 {
					return Const(w, uint64(-sx))
				}
				return Const(w, uint64(sx/sy))
			}
		case OpSRem:
			if y != 0 {
				sx, sy := sext64(x, w), sext64(y, w)
				if sy == -1 {
					return Const(w, 0)
				}
				return Const(w, uint64(sx%sy))
			}
		case OpShl:
			if y >= uint64(w) {
				return Const(w, 0)
			}
			return Const(w, x<<y)
		case OpLShr:
			if y >= uint64(w) {
				return Const(w, 0)
			}
			return Const(w, x>>y)
		case OpAShr:
			sx := sext64(x, w)
			if y >= uint64(w) {
				y = uint64(w - 1)
			}
			return Const(w, uint64(sx>>y))
		}
	}
	// identities
	switch op {
	case OpAdd:
		if a.Op == OpConst && a.C == 0 {
			return b
		}
		if b.Op == OpConst && b.C == 0 {
			return a
		}
		if a.Op == OpConst { // canonical: const on right
			a, b = b, a
		}
		// (x + c1) + c2
		if b.Op == OpConst && a.Op == OpAdd && a.Args[1].Op == OpConst && w <= 64 {
			return bin(OpAdd, a.Args[0], Const(w, a.Args[1].C+b.C))
		}
	case OpSub:
		if b.Op == OpConst && b.C == 0 {
			return a
		}
		if a == b {
			return Const(w, 0)
		}
		if b.Op == OpConst && w <= 64 {
			return bin(OpAdd, a, Const(w, -b.C))
		}
	case OpMul:
		if a.Op == OpConst {
			a, b = b, a
		}
		if b.Op == OpConst {
			if b.C == 0 {
				return b
			}
			if b.C == 1 {
				return a
			}
		}
	case OpAnd:
		if a.Op == OpConst {
			a, b = b, a
		}
		if b.Op == OpConst {
			if b.C == 0 {
				return b
			}
			if b.C == wmask(w) && w <= 64 {
				return a
			}
		}
		if a == b {
			return a
		}
	case OpOr:
		if a.Op == OpConst {
			a, b = b, a
		}
		if b.Op == OpConst {
			if b.C == 0 {
				return a
			}
			if b.C == wmask(w) && w <= 64 {
				return b
			}
		}
		if a == b {
			return a
		}
	case OpXor:
		if a.Op == OpConst {
			a, b = b, a
		}
		if b.Op == OpConst && b.C == 0 {
			return a
		}
		if a == b {
			return Const(w, 0)
		}
	case OpShl, OpLShr, OpAShr:
		if b.Op == OpConst && b.C == 0 {
			return a
		}
		if a.Op == OpConst && a.C == 0 {
			return a
		}
		if b.Op == OpConst && b.C >= uint64(w) && op != OpAShr {
			return Const(w, 0)
		}
		// constant shifts as extract/concat so that byte-level simplification applies
		if b.Op == OpConst && w <= 64 && b.C < uint64(w) {
			k := int(b.C)
			switch op {
			case OpLShr:
				return ZExt(Extract(a, w-1, k), w)
			case OpShl:
				return Concat(Extract(a, w-1-k, 0), Const(k, 0))
			}
		}
	case OpUDiv:
		if b.Op == OpConst && b.C == 1 {
			return a
		}
	}
	return mk(op, w, 0, "", a, b)
}

func Add(a, b *Term) *Term  { return bin(OpAdd, a, b) }
func Sub(a, b *Term) *Term  { return bin(OpSub, a, b) }
func Mul(a, b *Term) *Term  { return bin(OpMul, a, b) }
func UDiv(a, b *Term) *Term { return bin(OpUDiv, a, b) }
func SDiv(a, b *Term) *Term { return bin(OpSDiv, a, b) }
func URem(a, b *Term) *Term { return bin(OpURem, a, b) }
func SRem(a, b *Term) *Term { return bin(OpSRem, a, b) }
func And(a, b *Term) *Term  { return bin(OpAnd, a, b) }
func Or(a, b *Term) *Term   { return bin(OpOr, a, b) }
func Xor(a, b *Term) *Term  { return bin(OpXor, a, b) }
func Shl(a, b *Term) *Term  { return bin(OpShl, a, b) }
func LShr(a, b *Term) *Term { return bin(OpLShr, a, b) }
func AShr(a, b *Term) *Term { return bin(OpAShr, a, b) }

func Not(a *Term) *Term {
	if a.Op == OpConst {
		return Const(a.W, ^a.C)
	}
	if a.Op == OpNot {
		return a.Args[0]
	}
	return mk(OpNot, a.W, 0, "", a)
}
func Neg(a *Term) *Term {
	if a.Op == OpConst {
		return Const(a.W, -a.C)
	}
	return mk(OpNeg, a.W, 0, "", a)
}

func Concat(hi, lo *Term) *Term {
	if hi.W == 0 {
		return lo
	}
	if lo.W == 0 {
		return hi
	}
	w := hi.W + lo.W
	if hi.Op == OpConst && lo.Op == OpConst && w <= 64 {
		return Const(w, hi.C<<uint(lo.W)|lo.C)
	}
	// adjacent extracts of the same term
	if hi.Op == OpExtract && lo.Op == OpExtract && hi.Args[0] == lo.Args[0] {
		hh, hl := int(hi.C>>8), int(hi.C&0xff)
		lh, ll := int(lo.C>>8), int(lo.C&0xff)
		if hl == lh+1 {
			return Extract(hi.Args[0], hh, ll)
		}
	}
	// zero high part => zext
	if hi.Op == OpConst && hi.C == 0 {
		return ZExt(lo, w)
	}
	// (concat hi (concat lo.hi lo.lo)) where hi,lo.hi adjacent extracts
	if lo.Op == OpConcat && hi.Op == OpExtract && lo.Args[0].Op == OpExtract && hi.Args[0] == lo.Args[0].Args[0] {
		hl := int(hi.C & 0xff)
		lh := int(lo.Args[0].C >> 8)
		if hl == lh+1 {
			return Concat(Concat(hi, lo.Args[0]), lo.Args[1])
		}
	}
	return mk(OpConcat, w, 0, "", hi, lo)
}

// Extract bits hi..lo inclusive.
func Extract(a *Term, hi, lo int) *Term {
	if lo == 0 && hi == a.W-1 {
		return a
	}
	if hi < lo || hi >= a.W || lo < 0 {
		panic(fmt.Sprintf("bad extract %d %d of width %d", hi, lo, a.W))
	}
	w := hi - lo + 1
	switch a.Op {
	case OpConst:
		return Const(w, a.C>>uint(lo))
	case OpExtract:
		il := int(a.C & 0xff)
		return Extract(a.Args[0], hi+il, lo+il)
	case OpConcat:
		l := a.Args[1]
		if hi < l.W {
			return Extract(l, hi, lo)
		}
		if lo >= l.W {
			return Extract(a.Args[0], hi-l.W, lo-l.W)
		}
		return Concat(Extract(a.Args[0], hi-l.W, 0), Extract(l, l.W-1, lo))
	case OpZExt:
		in := a.Args[0]
		if hi < in.W {
			return Extract(in, hi, lo)
		}
		if lo >= in.W {
			return Const(w, 0)
		}
		return ZExt(Extract(in, in.W-1, lo), w)
	case OpSExt:
		in := a.Args[0]
		if hi < in.W {
			return Extract(in, hi, lo)
		}
	case OpAnd, OpOr, OpXor:
		// push extract through bitwise ops when one side is constant (keeps byte reads small)
		if a.Args[1].Op == OpConst || a.Args[0].Op == OpConst {
			return bin(a.Op, Extract(a.Args[0], hi, lo), Extract(a.Args[1], hi, lo))
		}
	case OpIte:
		if a.Args[1].Op == OpConst && a.Args[2].Op == OpConst {
			return Ite(a.Args[0], Extract(a.Args[1], hi, lo), Extract(a.Args[2], hi, lo))
		}
	}
	return mk(OpExtract, w, uint64(hi)<<8|uint64(lo), "", a)
}

func ZExt(a *Term, w int) *Term {
	if w == a.W {
		return a
	}
	if w < a.W {
		return Extract(a, w-1, 0)
	}
	if a.Op == OpConst && w <= 64 {
		return Const(w, a.C)
	}
	if a.Op == OpZExt {
		return ZExt(a.Args[0], w)
	}
	return mk(OpZExt, w, 0, "", a)
}
func SExt(a *Term, w int) *Term {
	if w == a.W {
		return a
	}
	if w < a.W {
		return Extract(a, w-1, 0)
	}
	if a.Op == OpConst && w <= 64 {
		return Const(w, uint64(sext64(a.C, a.W)))
	}
	if a.Op == OpZExt { // sign bit is zero
		return ZExt(a.Args[0], w)
	}
	return mk(OpSExt, w, 0, "", a)
}

func Ite(c, a, b *Term) *Term {
	if c.Op == OpTrue {
		return a
	}
	if c.Op == OpFalse {
		return b
	}
	if a == b {
		return a
	}
	if a.W == 0 {
		if a.Op == OpTrue && b.Op == OpFalse {
			return c
		}
		if a.Op == OpFalse && b.Op == OpTrue {
			return BNot(c)
		}
		if a.Op == OpTrue {
			return BOr(c, b)
		}
		if a.Op == OpFalse {
			return BAnd(BNot(c), b)
		}
		if b.Op == OpTrue {
			return BOr(BNot(c), a)
		}
		if b.Op == OpFalse {
			return BAnd(c, a)
		}
	}
	if c.Op == OpBNot {
		return Ite(c.Args[0], b, a)
	}
	return mk(OpIte, a.W, 0, "", c, a, b)
}

func Eq(a, b *Term) *Term {
	if a.W != b.W {
		panic(fmt.Sprintf("eq width mismatch %d %d", a.W, b.W))
	}
	if a == b {
		return TTrue
	}
	if a.IsConst() && b.IsConst() {
		return Bool(a.ConstVal() == b.ConstVal())
	}
	if a.W == 0 {
		if a.Op == OpTrue {
			return b
		}
		if b.Op == OpTrue {
			return a
		}
		if a.Op == OpFalse {
			return BNot(b)
		}
		if b.Op == OpFalse {
			return BNot(a)
		}
	}
	if a.IsConst() {
		a, b = b, a
	}
	// eq(ite(c, k1, k2), k) with constants
	if b.Op == OpConst && a.Op == OpIte && a.Args[1].Op == OpConst && a.Args[2].Op == OpConst {
		return Ite(a.Args[0], Bool(a.Args[1].C == b.C), Bool(a.Args[2].C == b.C))
	}
	// eq(zext(x), k)
	if b.Op == OpConst && a.Op == OpZExt {
		in := a.Args[0]
		if b.C>>uint(in.W) != 0 {
			return TFalse
		}
		return Eq(in, Const(in.W, b.C))
	}
	if a.ID > b.ID && !b.IsConst() {
		a, b = b, a
	}
	return mk(OpEq, 0, 0, "", a, b)
}

func cmp(op Op, a, b *Term) *Term {
	if a.W != b.W {
		panic("cmp width mismatch")
	}
	if a.Op == OpConst && b.Op == OpConst {
		x, y := a.C, b.C
		sx, sy := sext64(x, a.W), sext64(y, a.W)
		switch op {
		case OpUlt:
			return Bool(x < y)
		case OpUle:
			return Bool(x <= y)
		case OpSlt:
			return Bool(sx < sy)
		case OpSle:
			return Bool(sx <= sy)
		}
	}
	if a == b {
		return Bool(op == OpUle || op == OpSle)
	}
	if op == OpUlt && b.Op == OpConst && b.C == 0 {
		return TFalse
	}
	if op == OpUle && a.Op == OpConst && a.C == 0 {
		return TTrue
	}
	return mk(op, 0, 0, "", a, b)
}
func Ult(a, b *Term) *Term { return cmp(OpUlt, a, b) }
func Ule(a, b *Term) *Term { return cmp(OpUle, a, b) }
func Slt(a, b *Term) *Term { return cmp(OpSlt, a, b) }
func Sle(a, b *Term) *Term { return cmp(OpSle, a, b) }

func BNot(a *Term) *Term {
	switch a.Op {
	case OpTrue:
		return TFalse
	case OpFalse:
		return TTrue
	case OpBNot:
		return a.Args[0]
	}
	return mk(OpBNot, 0, 0, "", a)
}
func BAnd(a, b *Term) *Term {
	if a.Op == OpFalse || b.Op == OpFalse {
		return TFalse
	}
	if a.Op == OpTrue {
		return b
	}
	if b.Op == OpTrue {
		return a
	}
	if a == b {
		return a
	}
	if a == BNot(b) {
		return TFalse
	}
	return mk(OpBAnd, 0, 0, "", a, b)
}
func BOr(a, b *Term) *Term {
	if a.Op == OpTrue || b.Op == OpTrue {
		return TTrue
	}
	if a.Op == OpFalse {
		return b
	}
	if b.Op == OpFalse {
		return a
	}
	if a == b {
		return a
	}
	if a == BNot(b) {
		return TTrue
	}
	return mk(OpBOr, 0, 0, "", a, b)
}

// BoolToBV turns a Bool into a width-w 0/1.
func BoolToBV(b *Term, w int) *Term { return Ite(b, Const(w, 1), Const(w, 0)) }

// ---------- floating point (bit patterns) ----------

func fval(t *Term) float64 {
	if t.W == 32 {
		return float64(math.Float32frombits(uint32(t.C)))
	}
	return math.Float64frombits(t.C)
}
func fconst(w int, f float64) *Term {
	if w == 32 {
		return Const(32, uint64(math.Float32bits(float32(f))))
	}
	return Const(64, math.Float64bits(f))
}

func FCmp(op Op, a, b *Term) *Term {
	if a.Op == OpConst && b.Op == OpConst {
		x, y := fval(a), fval(b)
		switch op {
		case OpFEq:
			return Bool(x == y)
		case OpFLt:
			return Bool(x < y)
		case OpFLe:
			return Bool(x <= y)
		}
	}
	return mk(op, 0, 0, "", a, b)
}
func FIsNaN(a *Term) *Term {
	if a.Op == OpConst {
		return Bool(math.IsNaN(fval(a)))
	}
	return mk(OpFIsNaN, 0, 0, "", a)
}
func FArith(op Op, a, b *Term) *Term {
	if a.Op == OpConst && b.Op == OpConst {
		x, y := fval(a), fval(b)
		if a.W == 32 {
			x32, y32 := float32(x), float32(y)
			var r float32
			switch op {
			case OpFAdd:
				r = x32 + y32
			case OpFSub:
				r = x32 - y32
			case OpFMul:
				r = x32 * y32
			case OpFDiv:
				r = x32 / y32
			}
			return Const(32, uint64(math.Float32bits(r)))
		}
		var r float64
		switch op {
		case OpFAdd:
			r = x + y
		case OpFSub:
			r = x - y
		case OpFMul:
			r = x * y
		case OpFDiv:
			r = x / y
		}
		return Const(64, math.Float64bits(r))
	}
	return mk(op, a.W, 0, "", a, b)
}
func FNeg(a *Term) *Term {
	// sign-bit flip
	return Xor(a, Const(a.W, uint64(1)<<uint(a.W-1)))
}
func FCvt(a *Term, w int) *Term {
	if a.W == w {
		return a
	}
	if a.Op == OpConst {
		return fconst(w, fval(a))
	}
	return mk(OpFCvt, w, 0, "", a)
}
func IToF(a *Term, signed bool, w int) *Term {
	if a.Op == OpConst {
		if signed {
			return fconst(w, float64(sext64(a.C, a.W)))
		}
		return fconst(w, float64(a.C))
	}
	if signed {
		return mk(OpSIToF, w, 0, "", a)
	}
	return mk(OpUIToF, w, 0, "", a)
}
func FToI(a *Term, signed bool, w int) *Term {
	if a.Op == OpConst {
		f := fval(a)
		if signed {
			return Const(w, uint64(int64(f)))
		}
		return Const(w, uint64(f))
	}
	if signed {
		return mk(OpFToSI, w, 0, "", a)
	}
	return mk(OpFToUI, w, 0, "", a)
}

// ---------- printing ----------

func sortOf(t *Term) string {
	if t.W == 0 {
		return "Bool"
	}
	return fmt.Sprintf("(_ BitVec %d)", t.W)
}

func fpOf(t *Term, s string) string {
	if t.W == 32 {
		return "((_ to_fp 8 24) " + s + ")"
	}
	return "((_ to_fp 11 53) " + s + ")"
}

// smtHead renders t with children referenced by name via ref().
func (t *Term) smtExpr(ref func(*Term) string) string {
	a := func(i int) string { return ref(t.Args[i]) }
	b2 := func(op string) string { return "(" + op + " " + a(0) + " " + a(1) + ")" }
	switch t.Op {
	case OpConst:
		return fmt.Sprintf("(_ bv%d %d)", t.C, t.W)
	case OpTrue:
		return "true"
	case OpFalse:
		return "false"
	case OpSym:
		return "|" + t.Name + "|"
	case OpAdd:
		return b2("bvadd")
	case OpSub:
		return b2("bvsub")
	case OpMul:
		return b2("bvmul")
	case OpUDiv:
		return b2("bvudiv")
	case OpSDiv:
		return b2("bvsdiv")
	case OpURem:
		return b2("bvurem")
	case OpSRem:
		return b2("bvsrem")
	case OpAnd:
		return b2("bvand")
	case OpOr:
		return b2("bvor")
	case OpXor:
		return b2("bvxor")
	case OpNot:
		return "(bvnot " + a(0) + ")"
	case OpNeg:
		return "(bvneg " + a(0) + ")"
	case OpShl:
		return b2("bvshl")
	case OpLShr:
		return b2("bvlshr")
	case OpAShr:
		return b2("bvashr")
	case OpConcat:
		return b2("concat")
	case OpExtract:
		return fmt.Sprintf("((_ extract %d %d) %s)", t.C>>8, t.C&0xff, a(0))
	case OpZExt:
		return fmt.Sprintf("((_ zero_extend %d) %s)", t.W-t.Args[0].W, a(0))
	case OpSExt:
		return fmt.Sprintf("((_ sign_extend %d) %s)", t.W-t.Args[0].W, a(0))
	case OpIte:
		return "(ite " + a(0) + " " + a(1) + " " + a(2) + ")"
	case OpEq:
		return b2("=")
	case OpUlt:
		return b2("bvult")
	case OpUle:
		return b2("bvule")
	case OpSlt:
		return b2("bvslt")
	case OpSle:
		return b2("bvsle")
	case OpBAnd:
		return b2("and")
	case OpBOr:
		return b2("or")
	case OpBNot:
		return "(not " + a(0) + ")"
	case OpFEq:
		return "(fp.eq " + fpOf(t.Args[0], a(0)) + " " + fpOf(t.Args[1], a(1)) + ")"
	case OpFLt:
		return "(fp.lt " + fpOf(t.Args[0], a(0)) + " " + fpOf(t.Args[1], a(1)) + ")"
	case OpFLe:
		return "(fp.leq " + fpOf(t.Args[0], a(0)) + " " + fpOf(t.Args[1], a(1)) + ")"
	case OpFIsNaN:
		return "(fp.isNaN " + fpOf(t.Args[0], a(0)) + ")"
	}
	fpSort := func(w int) string {
		if w == 32 {
			return "(_ to_fp 8 24)"
		}
		return "(_ to_fp 11 53)"
	}
	switch t.Op {
	case OpFCvt:
		return "(fp.to_ieee_bv (" + fpSort(t.W) + " RNE " + fpOf(t.Args[0], a(0)) + "))"
	case OpSIToF:
		return "(fp.to_ieee_bv (" + fpSort(t.W) + " RNE " + a(0) + "))"
	case OpUIToF:
		if t.W == 32 {
			return "(fp.to_ieee_bv ((_ to_fp_unsigned 8 24) RNE " + a(0) + "))"
		}
		return "(fp.to_ieee_bv ((_ to_fp_unsigned 11 53) RNE " + a(0) + "))"
	case OpFToSI:
		return fmt.Sprintf("((_ fp.to_sbv %d) RTZ %s)", t.W, fpOf(t.Args[0], a(0)))
	case OpFToUI:
		return fmt.Sprintf("((_ fp.to_ubv %d) RTZ %s)", t.W, fpOf(t.Args[0], a(0)))
	case OpFAdd, OpFSub, OpFMul, OpFDiv:
		op := map[Op]string{OpFAdd: "fp.add", OpFSub: "fp.sub", OpFMul: "fp.mul", OpFDiv: "fp.div"}[t.Op]
		return "(fp.to_ieee_bv (" + op + " RNE " + fpOf(t.Args[0], a(0)) + " " + fpOf(t.Args[1], a(1)) + "))"
	}
	panic(fmt.Sprintf("smtExpr: op %d", t.Op))
}

func (t *Term) String() string {
	var f func(*Term, int) string
	f = func(x *Term, d int) string {
		if d > 6 {
			return "..."
		}
		return x.smtExpr(func(c *Term) string { return f(c, d+1) })
	}
	defer func() { recover() }()
	return f(t, 0)
}

// ---------- evaluation under a model ----------

type Model map[*Term]uint64

// u128 carries evaluation results for terms up to 128 bits wide.
type u128 struct{ hi, lo uint64 }

func (x u128) mask(w int) u128 {
	switch {
	case w == 0:
		return u128{0, x.lo & 1}
	case w <= 64:
		return u128{0, x.lo & wmask(w)}
	case w >= 128:
		return x
	}
	return u128{x.hi & wmask(w-64), x.lo}
}
func (x u128) add(y u128) u128 {
	lo, c := bits.Add64(x.lo, y.lo, 0)
	hi, _ := bits.Add64(x.hi, y.hi, c)
	return u128{hi, lo}
}
func (x u128) not() u128 { return u128{^x.hi, ^x.lo} }
func (x u128) neg() u128 { return x.not().add(u128{0, 1}) }
func (x u128) mul(y u128) u128 {
	hi, lo := bits.Mul64(x.lo, y.lo)
	hi += x.hi*y.lo + x.lo*y.hi
	return u128{hi, lo}
}
func (x u128) shl(n uint) u128 {
	switch {
	case n == 0:
		return x
	case n >= 128:
		return u128{}
	case n >= 64:
		return u128{x.lo << (n - 64), 0}
	}
	return u128{x.hi<<n | x.lo>>(64-n), x.lo << n}
}
func (x u128) shr(n uint) u128 {
	switch {
	case n == 0:
		return x
	case n >= 128:
		return u128{}
	case n >= 64:
		return u128{0, x.hi >> (n - 64)}
	}
	return u128{x.hi >> n, x.lo>>n | x.hi<<(64-n)}
}
func (x u128) less(y u128) bool { return x.hi < y.hi || x.hi == y.hi && x.lo < y.lo }
func (x u128) bit(i int) bool {
	if i >= 64 {
		return x.hi>>(uint(i)-64)&1 == 1
	}
	return x.lo>>uint(i)&1 == 1
}
func (x u128) sext(w int) u128 { // sign-extend from width w to 128
	if w >= 128 || w == 0 || !x.bit(w-1) {
		return x
	}
	ones := u128{^uint64(0), ^uint64(0)}.shl(uint(w))
	return u128{x.hi | ones.hi, x.lo | ones.lo}
}
func (x u128) sless(y u128, w int) bool {
	a, b := x.sext(w), y.sext(w)
	if int64(a.hi) != int64(b.hi) {
		return int64(a.hi) < int64(b.hi)
	}
	return a.lo < b.lo
}

type evaluator struct {
	m    Model
	memo map[*Term]u128
}

func Eval(t *Term, m Model) uint64 {
	e := evaluator{m: m, memo: map[*Term]u128{}}
	return e.eval(t).lo
}

func (e *evaluator) eval(t *Term) u128 {
	switch t.Op {
	case OpConst:
		return u128{0, t.C}
	case OpTrue:
		return u128{0, 1}
	case OpFalse:
		return u128{}
	case OpSym:
		return u128{0, e.m[t] & wmaskB(t.W)}
	}
	if v, ok := e.memo[t]; ok {
		return v
	}
	var r u128
	w := t.W
	a := func(i int) u128 { return e.eval(t.Args[i]) }
	aw := 0
	if len(t.Args) > 0 {
		aw = t.Args[0].W
	}
	small := aw <= 64 && w <= 64
	switch t.Op {
	case OpAdd:
		r = a(0).add(a(1))
	case OpSub:
		r = a(0).add(a(1).neg())
	case OpMul:
		r = a(0).mul(a(1))
	case OpUDiv, OpURem, OpSDiv, OpSRem:
		if !small {
			panic("eval: wide division")
		}
		x, y := a(0).lo, a(1).lo
		switch t.Op {
		case OpUDiv:
			if y == 0 {
				r.lo = wmask(w)
			} else {
				r.lo = x / y
			}
		case OpURem:
			if y == 0 {
				r.lo = x
			} else {
				r.lo = x % y
			}
		case OpSDiv:
			sx, sy := sext64(x, w), sext64(y, w)
			switch {
			case sy == 0:
				if sx >= 0 {
					r.lo = wmask(w)
				} else {
					r.lo = 1
				}
			case sy == -1:
				r.lo = uint64(-sx)
			default:
				r.lo = uint64(sx / sy)
			}
		case OpSRem:
			sx, sy := sext64(x, w), sext64(y, w)
			switch {
			case sy == 0:
				r.lo = uint64(sx)
			case sy == -1:
				r.lo = 0
			default:
				r.lo = uint64(sx % sy)
			}
		}
	case OpAnd:
		x, y := a(0), a(1)
		r = u128{x.hi & y.hi, x.lo & y.lo}
	case OpOr:
		x, y := a(0), a(1)
		r = u128{x.hi | y.hi, x.lo | y.lo}
	case OpXor:
		x, y := a(0), a(1)
		r = u128{x.hi ^ y.hi, x.lo ^ y.lo}
	case OpNot:
		r = a(0).not()
	case OpNeg:
		r = a(0).neg()
	case OpShl:
		y := a(1)
		if y.hi != 0 || y.lo >= uint64(w) {
			r = u128{}
		} else {
			r = a(0).shl(uint(y.lo))
		}
	case OpLShr:
		y := a(1)
		if y.hi != 0 || y.lo >= uint64(w) {
			r = u128{}
		} else {
			r = a(0).shr(uint(y.lo))
		}
	case OpAShr:
		y := a(1)
		n := uint(w - 1)
		if y.hi == 0 && y.lo < uint64(w) {
			n = uint(y.lo)
		}
		x := a(0).sext(w)
		// arithmetic shift on 128 bits
		neg := x.bit(127)
		r = x.shr(n)
		if neg && n > 0 {
			ones := u128{^uint64(0), ^uint64(0)}.shl(128 - n)
			r = u128{r.hi | ones.hi, r.lo | ones.lo}
		}
	case OpConcat:
		lo := a(1)
		r = a(0).shl(uint(t.Args[1].W))
		r = u128{r.hi | lo.hi, r.lo | lo.lo}
	case OpExtract:
		r = a(0).shr(uint(t.C & 0xff))
	case OpZExt:
		r = a(0)
	case OpSExt:
		r = a(0).sext(aw)
	case OpIte:
		if a(0).lo != 0 {
			r = a(1)
		} else {
			r = a(2)
		}
	case OpEq:
		r.lo = b2u(a(0) == a(1))
	case OpUlt:
		r.lo = b2u(a(0).less(a(1)))
	case OpUle:
		r.lo = b2u(!a(1).less(a(0)))
	case OpSlt:
		r.lo = b2u(a(0).sless(a(1), aw))
	case OpSle:
		r.lo = b2u(!a(1).sless(a(0), aw))
	case OpBAnd:
		r.lo = a(0).lo & a(1).lo
	case OpBOr:
		r.lo = a(0).lo | a(1).lo
	case OpBNot:
		r.lo = a(0).lo ^ 1
	case OpFEq, OpFLt, OpFLe:
		x, y := fval(Const(aw, a(0).lo)), fval(Const(aw, a(1).lo))
		switch t.Op {
		case OpFEq:
			r.lo = b2u(x == y)
		case OpFLt:
			r.lo = b2u(x < y)
		default:
			r.lo = b2u(x <= y)
		}
	case OpFIsNaN:
		r.lo = b2u(math.IsNaN(fval(Const(aw, a(0).lo))))
	case OpFCvt:
		r.lo = fconst(w, fval(Const(aw, a(0).lo))).C
	case OpSIToF:
		r.lo = fconst(w, float64(sext64(a(0).lo, aw))).C
	case OpUIToF:
		r.lo = fconst(w, float64(a(0).lo)).C
	case OpFToSI:
		r.lo = uint64(int64(fval(Const(aw, a(0).lo))))
	case OpFToUI:
		r.lo = uint64(fval(Const(aw, a(0).lo)))
	case OpFAdd, OpFSub, OpFMul, OpFDiv:
		r.lo = FArith(t.Op, Const(aw, a(0).lo), Const(aw, a(1).lo)).C
	default:
		panic(fmt.Sprintf("eval op %d", t.Op))
	}
	r = r.mask(w)
	e.memo[t] = r
	return r
}

func wmaskB(w int) uint64 {
	if w == 0 {
		return 1
	}
	return wmask(w)
}
func b2u(b bool) uint64 {
	if b {
		return 1
	}
	return 0
}

// Syms collects free symbols of t into set.
func Syms(t *Term, set map[*Term]bool, seen map[*Term]bool) {
	if seen[t] {
		return
	}
	seen[t] = true
	if t.Op == OpSym {
		set[t] = true
		return
	}
	for _, a := range t.Args {
		Syms(a, set, seen)
	}
}

// LenTerm returns bits.Len(x) as a width-w term (ite cascade).
func LenTerm(x *Term, w int) *Term {
	if x.Op == OpConst {
		return Const(w, uint64(bits.Len64(x.C)))
	}
	r := Const(w, 0)
	for k := 1; k <= x.W; k++ {
		r = Ite(Ule(Const(x.W, uint64(1)<<uint(k-1)), x), Const(w, uint64(k)), r)
	}
	return r
}
