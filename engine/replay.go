package main

// Native replay of solver counterexamples against the real build (DESIGN §2.9).

import (
	"crypto/sha256"
	"encoding/json"
	"fmt"
	"os"
	"os/exec"
	"path/filepath"
	"strings"
	"time"
)

type ReplayFile struct {
	Property string     `json:"property"`
	Harness  string     `json:"harness"`
	PkgDir   string     `json:"package"`
	Label    string     `json:"label"`
	Kind     string     `json:"kind"`
	Tier     string     `json:"tier"`
	Tags     string     `json:"tags,omitempty"`
	Msg      string     `json:"msg"`
	Vector   []VecEntry `json:"vector"`
}

func pkgNameOf(file string) string {
	data, _ := os.ReadFile(file)
	for _, l := range strings.Split(string(data), "\n") {
		l = strings.TrimSpace(l)
		if strings.HasPrefix(l, "package ") {
			return strings.Fields(l)[1]
		}
	}
	return "main"
}

// replayNative runs the harness natively on the vector. It reports whether the same
// failure (assertion label or a panic) reproduces, plus a short transcript.
// replayWitness runs the harness natively on a reachability witness: the native run must reach
// the same marker without any failed assertion or panic (translator validation, DESIGN §2.10).
func replayWitness(h *HarnessDef, vec []VecEntry, marker, tier, tags string) (bool, string) {
	return replayNativeMode(h, vec, marker, "witness", tier, tags)
}

func replayNative(h *HarnessDef, vec []VecEntry, label, kind, tier, tags string) (bool, string) {
	return replayNativeMode(h, vec, label, kind, tier, tags)
}

func replayNativeMode(h *HarnessDef, vec []VecEntry, label, kind, tier, tags string) (bool, string) {
	tmp, err := os.MkdirTemp("", "verif-replay-")
	if err != nil {
		return false, err.Error()
	}
	defer os.RemoveAll(tmp)
	vf := filepath.Join(tmp, "vector.json")
	data, _ := json.Marshal(map[string]interface{}{"vector": vec})
	os.WriteFile(vf, data, 0o644)
	ndf := filepath.Join(tmp, "nd.go")
	os.WriteFile(ndf, ndReplaySrc, 0o644)
	tf := filepath.Join(tmp, "replay_test.go")
	test := fmt.Sprintf(`//go:build verif

package %s

import (
	"fmt"
	"testing"
)

func TestVerifReplay(t *testing.T) {
	defer func() {
		if r := recover(); r != nil {
			fmt.Printf("PANIC: %%v\n", r)
		}
		fmt.Println("REPLAY-END")
	}()
	%s()
}
`, pkgNameOf(h.File), h.Func)
	os.WriteFile(tf, []byte(test), 0o644)
	repl := map[string]string{
		filepath.Join(repoDir, "internal/zzverif/nd/nd.go"):         ndf,
		filepath.Join(repoDir, h.PkgDir, "zz_verif_replay_test.go"): tf,
	}
	for v, real := range harnessOverlay(map[string]bool{h.PkgDir: true}) {
		repl[v] = real
	}
	if m := os.Getenv("VERIF_MUT"); m != "" {
		parts := strings.SplitN(m, "|", 3)
		orig, _ := os.ReadFile(parts[0])
		mf := filepath.Join(tmp, "mut.go")
		os.WriteFile(mf, []byte(strings.Replace(string(orig), parts[1], parts[2], 1)), 0o644)
		repl[parts[0]] = mf
	}
	ovf := filepath.Join(tmp, "overlay.json")
	od, _ := json.Marshal(map[string]interface{}{"Replace": repl})
	os.WriteFile(ovf, od, 0o644)
	bt := "verif"
	if tags != "" {
		bt += "," + tags
	}
	cmd := exec.Command("go", "test", "-tags="+bt, "-vet=off", "-count=1", "-v", "-run", "^TestVerifReplay$", "-overlay", ovf, "-timeout", "120s", "./"+h.PkgDir)
	cmd.Dir = repoDir
	cmd.Env = append(goEnv(), "VERIF_VECTOR="+vf, "VERIF_TIER="+tier)
	if kind == "witness" {
		cmd.Env = append(cmd.Env, "VERIF_WITNESS=1")
	}
	t0 := time.Now()
	out, _ := cmd.CombinedOutput()
	_ = t0
	s := string(out)
	if strings.Contains(s, "REPLAY-DIVERGED") {
		return false, "diverged: " + firstLines(s, 3)
	}
	if !strings.Contains(s, "REPLAY-END") {
		// build failure or hard crash (fatal error, os.Exit)
		if strings.Contains(s, "fatal error:") || strings.Contains(s, "panic:") {
			return kind == "panic", "crash: " + firstLines(s, 3)
		}
		return false, "replay did not run: " + firstLines(s, 6)
	}
	if kind == "witness" {
		// the replay nd ends the run with os.Exit(0) once the vector is exhausted, which the test
		// binary reports as a panic: only what happened before REPLAY-END counts
		if i := strings.Index(s, "REPLAY-END"); i >= 0 {
			s = s[:i]
		}
		switch {
		case strings.Contains(s, "ASSERT-FAILED: "):
			return false, "native run fails an assertion on the witness: " + firstLines(s, 4)
		case strings.Contains(s, "PANIC: "):
			return false, "native run panics on the witness: " + firstLines(s, 4)
		case !strings.Contains(s, "REACH: "+label+"\n"):
			return false, "native run does not reach the marker: " + firstLines(s, 4)
		}
		return true, "marker reached natively"
	}
	if kind == "panic" {
		if strings.Contains(s, "PANIC: ") {
			return true, firstLines(s, 2)
		}
		return false, "no panic natively"
	}
	if strings.Contains(s, "ASSERT-FAILED: "+label+"\n") {
		return true, "assertion failed natively"
	}
	if strings.HasPrefix(label, "ordering:") && strings.Contains(s, "ORDERING-SITE: "+label+"\n") {
		return true, "ordering violation observed in the symbolic heap; the native sequential run confirms only that the input reaches the site"
	}
	return false, "assertion held natively: " + firstLines(s, 3)
}

func firstLines(s string, n int) string {
	ls := strings.Split(strings.TrimSpace(s), "\n")
	if len(ls) > n {
		ls = ls[:n]
	}
	return strings.Join(ls, " / ")
}

func writeReplay(prop string, h *HarnessDef, v *Violation, tier string) string {
	rf := ReplayFile{Property: prop, Harness: h.Func, PkgDir: h.PkgDir, Label: v.Label, Kind: v.Kind, Tier: tier, Tags: h.opt("tags", ""), Msg: v.Msg, Vector: v.Vector}
	data, _ := json.MarshalIndent(rf, "", " ")
	sum := sha256.Sum256(data)
	dir := filepath.Join(verifDir, "replays", prop)
	os.MkdirAll(dir, 0o755)
	p := filepath.Join(dir, fmt.Sprintf("%s-%x.json", h.Func, sum[:6]))
	os.WriteFile(p, append(data, '\n'), 0o644)
	return p
}

func cmdReplay(args []string) int {
	if len(args) < 1 {
		fmt.Fprintln(os.Stderr, "usage: replay <file>")
		return 2
	}
	data, err := os.ReadFile(args[len(args)-1])
	if err != nil {
		fmt.Fprintln(os.Stderr, err)
		return 2
	}
	var rf ReplayFile
	if err := json.Unmarshal(data, &rf); err != nil {
		fmt.Fprintln(os.Stderr, err)
		return 2
	}
	for _, h := range scanHarnesses() {
		if h.Func == rf.Harness && h.PkgDir == rf.PkgDir {
			ok, out := replayNative(h, rf.Vector, rf.Label, rf.Kind, rf.Tier, rf.Tags)
			fmt.Printf("replay %s label=%q: reproduced=%v (%s)\n", rf.Harness, rf.Label, ok, out)
			if ok {
				fmt.Printf("VIOLATION property=%s replay=%s\n", rf.Property, args[len(args)-1])
				return 1
			}
			return 0
		}
	}
	fmt.Fprintln(os.Stderr, "harness not found")
	return 2
}
