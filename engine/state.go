package main

import (
	"fmt"
	"go/types"
	"sync"

	"golang.org/x/tools/go/ssa"
)

// control-flow signals raised as Go panics inside the executor
type cutErr struct{ why string }
type goPanic struct {
	val Value // IfaceV or nil
	msg string
}
type forkedErr struct{}  // state was split; abandon the current step
type reenterErr struct{} // a synchronous sub-call was pushed; re-execute the instruction later
type doneErr struct{}

type retKind uint8

const (
	retNormal  retKind = iota // assign to caller's call instruction and advance
	retDiscard                // drop result, do not advance caller (RunDefers re-executes)
	retScratch                // store into caller scratch under key, do not advance
	retUnwind                 // deferred call during panic unwinding
	retTop                    // harness top frame
)

type deferred struct {
	fn   Value // FuncV
	args []Value
}

type PanicInfo struct {
	val Value
	msg string
}

type Frame struct {
	fn        *ssa.Function
	info      *FuncInfo
	env       []Value
	block     *ssa.BasicBlock
	prev      *ssa.BasicBlock
	pc        int
	defers    []deferred
	rk        retKind
	scratchK  int
	scratch   map[int]Value
	scratchN  int // next scratch key within the current instruction
	panic     *PanicInfo
	recovered bool
	isDefer   bool
}

func (f *Frame) clone() *Frame {
	n := *f
	n.env = append([]Value(nil), f.env...)
	if len(f.defers) > 0 {
		n.defers = append([]deferred(nil), f.defers...)
	}
	if f.scratch != nil {
		n.scratch = make(map[int]Value, len(f.scratch))
		for k, v := range f.scratch {
			n.scratch[k] = v
		}
	}
	return &n
}

type FuncInfo struct {
	idx map[ssa.Value]int
	n   int
}

var finfoCache sync.Map

func funcInfo(fn *ssa.Function) *FuncInfo {
	if v, ok := finfoCache.Load(fn); ok {
		return v.(*FuncInfo)
	}
	fi := &FuncInfo{idx: map[ssa.Value]int{}}
	add := func(v ssa.Value) {
		fi.idx[v] = fi.n
		fi.n++
	}
	for _, p := range fn.Params {
		add(p)
	}
	for _, fv := range fn.FreeVars {
		add(fv)
	}
	for _, b := range fn.Blocks {
		for _, in := range b.Instrs {
			if v, ok := in.(ssa.Value); ok {
				add(v)
			}
		}
	}
	finfoCache.Store(fn, fi)
	return fi
}

// NDEntry records one nondeterministic input for replay.
type NDEntry struct {
	Kind  string  // u64,i64,u32,i32,u16,u8,bool,int,bytes,string,f64,f32,shape
	Terms []*Term // value terms (bytes: one per byte)
	Note  string
}

type State struct {
	heap     Heap
	frames   []*Frame
	pc       *PC
	model    Model
	known    map[*Term]uint64
	nd       []NDEntry
	syms     []*Term
	steps    int
	branches int
	pan      *PanicInfo // active panic being unwound
	reached  []string
	observed []string
	approx   bool // some feasibility query was unknown
	tag      string
	sub      bool  // isolated callee exploration (function-level merging)
	retVal   Value // result of the top frame
	ext      map[string]interface{} // engine-side per-state data (iterators etc.)
	pubs     []pubRec               // publication log (see publish.go)
	pubMark  int                    // objects with a larger ID were allocated after nd.PublishLogStart
}

func (st *State) clone() *State {
	n := &State{
		heap:     st.heap.fork(),
		pc:       st.pc,
		model:    st.model,
		steps:    st.steps,
		branches: st.branches,
		pan:      st.pan,
		approx:   st.approx,
		tag:      st.tag,
		sub:      st.sub,
	}
	n.frames = make([]*Frame, len(st.frames))
	for i, f := range st.frames {
		n.frames[i] = f.clone()
	}
	n.known = make(map[*Term]uint64, len(st.known)+4)
	for k, v := range st.known {
		n.known[k] = v
	}
	n.nd = append([]NDEntry(nil), st.nd...)
	n.syms = append([]*Term(nil), st.syms...)
	n.reached = append([]string(nil), st.reached...)
	n.observed = append([]string(nil), st.observed...)
	n.pubs = append([]pubRec(nil), st.pubs...)
	n.pubMark = st.pubMark
	return n
}

func (st *State) top() *Frame { return st.frames[len(st.frames)-1] }

func (st *State) fresh(w int, hint string) *Term {
	t := NewSym(w, hint)
	st.syms = append(st.syms, t)
	return t
}

func (st *State) assume(t *Term) { st.pc = st.pc.And(t) }

func newFrame(fn *ssa.Function, args []Value, bind []Value, rk retKind) *Frame {
	if fn.Blocks == nil {
		panic(cutErr{"call to function without body: " + fn.String()})
	}
	fi := funcInfo(fn)
	f := &Frame{fn: fn, info: fi, env: make([]Value, fi.n), block: fn.Blocks[0], rk: rk}
	if len(args) != len(fn.Params) {
		panic(fmt.Sprintf("arity mismatch calling %s: %d vs %d", fn, len(args), len(fn.Params)))
	}
	for i, p := range fn.Params {
		f.env[fi.idx[p]] = args[i]
	}
	for i, fv := range fn.FreeVars {
		f.env[fi.idx[fv]] = bind[i]
	}
	return f
}

func (f *Frame) set(v ssa.Value, val Value) { f.env[f.info.idx[v]] = val }

func typeString(t types.Type) string { return types.TypeString(t, nil) }
