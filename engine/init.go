package main

// Lenient concrete execution of package initialisers (DESIGN §2.6): simple
// initialisers run exactly; anything needing reflection/OS leaves its target opaque.

import (
	"fmt"
	"go/types"
	"os"
	"sort"
	"strings"

	"golang.org/x/tools/go/ssa"
)

var stdInitAllow = map[string]bool{
	"errors": true, "io": true, "unicode/utf8": true, "unicode/utf16": true, "strconv": true,
	"math": true, "math/bits": true, "strings": true, "bytes": true, "sort": true,
	"encoding/binary": true, "encoding/base64": true, "unicode": true, "bufio": true,
	"time": true, "sync": true, "sync/atomic": true, "internal/bytealg": true, "slices": true,
	"internal/stringslite": true, "cmp": true, "hash/crc32": false, "go/token": true,
	"container/list": true, "math/rand": false, "internal/itoa": true, "unsafe": true,
	"internal/abi": true, "internal/unsafeheader": true, "internal/byteorder": true,
}

func (e *Engine) pkgAllowed(p *ssa.Package) bool {
	if p == nil || p.Pkg == nil {
		return false
	}
	path := p.Pkg.Path()
	if strings.HasPrefix(path, "google.golang.org/protobuf") {
		return true
	}
	return stdInitAllow[path]
}

func (e *Engine) initAllowed(fn *ssa.Function) bool {
	p := fn.Pkg
	if p == nil {
		if o := fn.Origin(); o != nil {
			p = o.Pkg
		}
	}
	if p == nil {
		if obj := fn.Object(); obj != nil && obj.Pkg() != nil {
			p = e.prog.Package(obj.Pkg())
		}
	}
	if p == nil {
		// synthetic wrapper (bound method, thunk): allow, its callee is checked again
		return true
	}
	return e.pkgAllowed(p)
}

// setupGlobals creates one object per package-level variable.
func (e *Engine) setupGlobals() {
	e.globals = map[*ssa.Global]int{}
	e.base = &Heap{objs: map[int]*Obj{}, owned: map[int]bool{}}
	for _, p := range e.prog.AllPackages() {
		allowed := e.pkgAllowed(p)
		for _, m := range p.Members {
			g, ok := m.(*ssa.Global)
			if !ok {
				continue
			}
			el := g.Type().Underlying().(*types.Pointer).Elem()
			o := &Obj{ID: newObjID(), Size: sizeof(el), Cells: map[int64]Cell{}, Typ: el, Name: "global:" + g.String(), OpaqueBg: !allowed}
			e.base.objs[o.ID] = o
			e.globals[g] = o.ID
		}
	}
}

// topo orders packages so that imports come first.
func topoPackages(prog *ssa.Program) []*ssa.Package {
	var out []*ssa.Package
	seen := map[*types.Package]bool{}
	var visit func(p *types.Package)
	visit = func(p *types.Package) {
		if seen[p] {
			return
		}
		seen[p] = true
		imps := append([]*types.Package(nil), p.Imports()...)
		sort.Slice(imps, func(i, j int) bool { return imps[i].Path() < imps[j].Path() })
		for _, q := range imps {
			visit(q)
		}
		if sp := prog.Package(p); sp != nil {
			out = append(out, sp)
		}
	}
	all := prog.AllPackages()
	sort.Slice(all, func(i, j int) bool { return all[i].Pkg.Path() < all[j].Pkg.Path() })
	for _, p := range all {
		visit(p.Pkg)
	}
	return out
}

var debugInit = os.Getenv("SYMEX_DEBUG_INIT") != ""

// runInits executes package initialisers concretely and leniently.
func (e *Engine) runInits() {
	saved := e.cfg
	e.cfg.Concrete = true
	e.cfg.MaxSteps = 30_000_000
	res := &HarnessResult{Name: "init", Cuts: map[string]int{}, Reached: map[string]*VecSample{}, Funcs: map[string]bool{}, Stubs: map[string]bool{}}
	e.res = res
	w := &Worker{e: e, funcs: map[string]bool{}, stubs: map[string]bool{}}
	st := &State{heap: Heap{objs: e.base.objs, owned: map[int]bool{}}, known: map[*Term]uint64{}}
	for id := range e.base.objs {
		st.heap.owned[id] = true
	}
	for _, p := range topoPackages(e.prog) {
		if !e.pkgAllowed(p) {
			continue
		}
		initFn := p.Func("init")
		if initFn == nil || initFn.Blocks == nil {
			continue
		}
		// mark guard as done so nested init calls are no-ops is handled in call(): we skip "init" callees
		st.frames = []*Frame{newFrame(initFn, nil, nil, retTop)}
		st.pan = nil
		steps0 := st.steps
		e.runInitPath(w, st)
		if debugInit {
			fmt.Printf("init %-60s steps=%d\n", p.Pkg.Path(), st.steps-steps0)
		}
	}
	e.base = &Heap{objs: st.heap.objs, owned: map[int]bool{}}
	e.cfg = saved
	e.cfg.Concrete = false
}

func (e *Engine) runInitPath(w *Worker, st *State) {
	budget := st.steps + 8_000_000
	for len(st.frames) > 0 {
		if st.steps > budget {
			if debugInit {
				fmt.Printf("init budget exceeded in %s\n", st.frames[0].fn)
			}
			return
		}
		if !e.initStep(w, st) {
			return
		}
	}
}

// initStep executes one instruction with lenient failure handling. Returns false when done.
func (e *Engine) initStep(w *Worker, st *State) (cont bool) {
	cont = true
	defer func() {
		r := recover()
		if r == nil {
			return
		}
		var why string
		switch x := r.(type) {
		case doneErr:
			st.frames = nil
			cont = false
			return
		case cutErr:
			why = x.why
		case forkedErr:
			why = "fork in init"
		default:
			why = fmt.Sprint(r)
		}
		if len(st.frames) == 0 {
			cont = false
			return
		}
		f := st.top()
		if f.block == nil || f.pc >= len(f.block.Instrs) {
			e.abortInitFrame(w, st, why)
			return
		}
		in := f.block.Instrs[f.pc]
		if debugInit {
			fmt.Printf("  init lenient: %s at %s: %v\n", why, f.fn, in)
		}
		f.scratch, f.scratchN = nil, 0
		switch x := in.(type) {
		case *ssa.If, *ssa.Return, *ssa.Jump, *ssa.Panic, *ssa.RunDefers, *ssa.Next:
			e.abortInitFrame(w, st, why)
		default:
			if v, ok := x.(ssa.Value); ok {
				if tt, isT := v.Type().(*types.Tuple); isT {
					t := make(Tuple, tt.Len())
					for i := range t {
						t[i] = Opaque{why}
					}
					f.set(v, t)
				} else {
					f.set(v, Opaque{why})
				}
			}
			f.pc++
		}
	}()
	if st.pan != nil {
		// a Go panic during init: abandon the function that raised it
		msg := st.pan.msg
		st.pan = nil
		e.abortInitFrame(w, st, "panic during init: "+msg)
		return
	}
	// skip nested package init calls: we run them ourselves in dependency order
	f := st.top()
	if c, ok := f.block.Instrs[f.pc].(*ssa.Call); ok {
		if callee := c.Common().StaticCallee(); callee != nil && callee.Name() == "init" && callee.Synthetic != "" && callee.Parent() == nil && callee.Signature.Recv() == nil {
			f.pc++
			return
		}
	}
	w.step(st)
	return
}

// abortInitFrame pops the current frame returning opaque results to its caller.
func (e *Engine) abortInitFrame(w *Worker, st *State, why string) {
	f := st.top()
	if debugInit {
		fmt.Printf("  init abort %s: %s\n", f.fn, why)
	}
	st.frames = st.frames[:len(st.frames)-1]
	if len(st.frames) == 0 {
		return
	}
	c := st.top()
	switch f.rk {
	case retNormal:
		in := c.block.Instrs[c.pc]
		if v, ok := in.(ssa.Value); ok {
			if tt, isT := v.Type().(*types.Tuple); isT {
				t := make(Tuple, tt.Len())
				for i := range t {
					t[i] = Opaque{why}
				}
				c.set(v, t)
			} else {
				c.set(v, Opaque{why})
			}
		}
		c.scratch = nil
		c.pc++
	case retScratch:
		if c.scratch == nil {
			c.scratch = map[int]Value{}
		}
		c.scratch[f.scratchK] = Opaque{why}
	case retDiscard, retUnwind:
	}
}
