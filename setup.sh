#!/bin/sh
# Builds the symbolic executor offline from /verif/engine.
set -e
cd "$(dirname "$0")/engine"
export GOFLAGS=-mod=mod GOPROXY=off GOSUMDB=off GOTOOLCHAIN=local
mkdir -p ../bin
go build -o ../bin/gosymex .
