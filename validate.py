#!/usr/bin/env python3
# validates MANIFEST.json and evidence files against the schemas (dev helper)
import json,sys,glob
import jsonschema
m=json.load(open('/verif/MANIFEST.json')); jsonschema.validate(m,json.load(open('/root/.vp/MANIFEST.schema.json')))
es=json.load(open('/root/.vp/EVIDENCE.schema.json'))
for f in sorted(glob.glob('/verif/evidence/*.json')):
    e=json.load(open(f)); jsonschema.validate(e,es)
    hs=e['coverage'].get('harnesses',[])
    print(f.split('/')[-1], e['tier'], 'states',e['coverage']['states'], 'viol',e.get('violations'), 'wall',round(e['wall_s'],1), {h['name']:h['status'] for h in hs if h['status']!='held'})
print('ok')
