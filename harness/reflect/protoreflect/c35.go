//go:build verif

package protoreflect

import (
	"google.golang.org/protobuf/internal/zzverif/nd"
)

func c35letter(c byte) bool { return c == '_' || ('a' <= c && c <= 'z') || ('A' <= c && c <= 'Z') }
func c35digit(c byte) bool  { return '0' <= c && c <= '9' }

// refIdent: [A-Za-z_][A-Za-z0-9_]*
func refIdent(s string) bool {
	if len(s) == 0 {
		return false
	}
	ok := c35letter(s[0])
	for i := 1; i < len(s); i++ {
		c := c35letter(s[i]) || c35digit(s[i])
		ok = ok && c
	}
	return ok
}

// refFullIdent: ident ("." ident)*
func refFullIdent(s string) bool {
	start := 0
	ok := true
	for i := 0; i < len(s); i++ {
		if s[i] == '.' {
			c := refIdent(s[start:i])
			ok = ok && c
			start = i + 1
		}
	}
	c := refIdent(s[start:])
	return ok && c
}

func c35eq(a, b string) bool {
	if len(a) != len(b) {
		return false
	}
	ok := true
	for i := 0; i < len(a); i++ {
		ok = ok && a[i] == b[i]
	}
	return ok
}

// H_C35_identifiers: Name.IsValid / FullName.IsValid accept exactly the identifier grammar.
//
//verif:props=C35 bounds=all-strings<=5(quick)/6(thorough) ifconv=1
func H_C35_identifiers() {
	N := 5
	if nd.Thorough() {
		N = 6
	}
	s := nd.String(N)
	nd.Assert(Name(s).IsValid() == refIdent(s), "Name.IsValid is the identifier grammar")
	fv := FullName(s).IsValid()
	nd.Assert(fv == refFullIdent(s), "FullName.IsValid is the dotted identifier grammar")
	if fv {
		nd.Reach("valid full name")
	} else {
		nd.Reach("invalid full name")
	}
}

// H_C36_fullname_append: Parent and Name undo Append on valid names.
//
//verif:props=C36 bounds=parent<=4-bytes;name<=3-bytes ifconv=1
func H_C36_fullname_append() {
	p := FullName(nd.String(4))
	n := Name(nd.String(3))
	nd.Assume(len(p) == 0 || p.IsValid())
	nd.Assume(n.IsValid())
	full := p.Append(n)
	nd.Reach("appended")
	nd.Assert(full.IsValid(), "Append of valid parts is valid")
	nd.Assert(c35eq(string(full.Parent()), string(p)), "Parent undoes Append")
	nd.Assert(c35eq(string(full.Name()), string(n)), "Name undoes Append")
}

// H_C36_fullname_split: the documented invariant n == n.Parent().Append(n.Name()) for valid n.
//
//verif:props=C36 bounds=full-name<=6-bytes ifconv=1
func H_C36_fullname_split() {
	q := FullName(nd.String(6))
	nd.Assume(q.IsValid())
	nd.Reach("valid q")
	nd.Assert(c35eq(string(q.Parent().Append(q.Name())), string(q)), "n == n.Parent().Append(n.Name())")
	nd.Assert(q.Name().IsValid(), "Name of a valid full name is a valid name")
	nd.Assert(len(q.Parent()) == 0 || q.Parent().IsValid(), "Parent of a valid full name is valid or empty")
}
