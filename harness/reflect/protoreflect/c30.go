//go:build verif

package protoreflect

import (
	"math"

	"google.golang.org/protobuf/internal/zzverif/nd"
)

// c30value builds a scalar Value of kind k (0..9) with symbolic content.
func c30value(k int) Value {
	switch k {
	case 0:
		return ValueOfBool(nd.Bool())
	case 1:
		return ValueOfInt32(nd.Int32())
	case 2:
		return ValueOfInt64(nd.Int64())
	case 3:
		return ValueOfUint32(nd.Uint32())
	case 4:
		return ValueOfUint64(nd.Uint64())
	case 5:
		return ValueOfFloat32(nd.Float32())
	case 6:
		return ValueOfFloat64(nd.Float64())
	case 7:
		return ValueOfString(nd.String(2))
	case 8:
		if nd.Bool() {
			return ValueOfBytes(nil)
		}
		return ValueOfBytes(nd.Bytes(2))
	default:
		return ValueOfEnum(EnumNumber(nd.Int32()))
	}
}

// H_C30_scalar_equivalence: Value.Equal on scalar values is reflexive (NaN equals NaN),
// symmetric and transitive; values of different kinds are never equal.
//
//verif:props=C30 bounds=10-scalar-kinds;full-width-numbers;strings/bytes<=2-bytes
func H_C30_scalar_equivalence() {
	k := nd.Int(0, 9)
	x, y, z := c30value(k), c30value(k), c30value(k)
	nd.Assert(x.Equal(x), "reflexive")
	exy, eyx := x.Equal(y), y.Equal(x)
	nd.Assert(exy == eyx, "symmetric")
	if exy && y.Equal(z) {
		nd.Reach("chain")
		nd.Assert(x.Equal(z), "transitive")
	}
	if k == 6 {
		a, b := x.Float(), y.Float()
		want := a == b || (math.IsNaN(a) && math.IsNaN(b))
		nd.Assert(exy == want, "float64 equality: numeric equality, all NaNs equal")
	}
	if k == 8 {
		nd.Assert(exy == (string(x.Bytes()) == string(y.Bytes())), "bytes equality is content equality (nil == empty)")
	}
	if k == 2 {
		nd.Assert(exy == (x.Int() == y.Int()), "int64 equality")
	}
}

// H_C30_kinds_differ: scalar values of different kinds are unequal, whatever their content.
//
//verif:props=C30 bounds=10x10-kind-pairs
func H_C30_kinds_differ() {
	k1, k2 := nd.Int(0, 9), nd.Int(0, 9)
	nd.Assume(k1 != k2)
	x, y := c30value(k1), c30value(k2)
	nd.Reach("different kinds")
	nd.Assert(!x.Equal(y), "different kinds are unequal")
	var zero Value
	nd.Assert(!x.Equal(zero) && !zero.Equal(x), "invalid Value differs from every scalar")
	nd.Assert(zero.Equal(zero), "invalid Value equals itself")
}

// c30list is a List whose elements are fixed scalar Values.
type c30list struct {
	List
	vs []Value
}

func (l c30list) Len() int        { return len(l.vs) }
func (l c30list) Get(i int) Value { return l.vs[i] }
func (l c30list) IsValid() bool   { return true }

// H_C30_list: list equality is element-wise equality of equal-length lists.
//
//verif:props=C30 bounds=lists<=2-of-int64/float64
func H_C30_list() {
	k := 2
	if nd.Bool() {
		k = 6
	}
	n1, n2 := nd.Int(0, 2), nd.Int(0, 2)
	a, b := c30list{vs: make([]Value, n1)}, c30list{vs: make([]Value, n2)}
	for i := range a.vs {
		a.vs[i] = c30value(k)
	}
	for i := range b.vs {
		b.vs[i] = c30value(k)
	}
	got := ValueOfList(a).Equal(ValueOfList(b))
	want := n1 == n2
	if want {
		for i := range a.vs {
			e := a.vs[i].Equal(b.vs[i])
			want = want && e
		}
	}
	nd.Reach("lists")
	nd.Assert(got == want, "list equality is element-wise")
	nd.Assert(ValueOfList(a).Equal(ValueOfList(a)), "list reflexive")
}
