//go:build verif

package proto

import (
	"google.golang.org/protobuf/encoding/protowire"
	"google.golang.org/protobuf/internal/zzverif/nd"
	"google.golang.org/protobuf/reflect/protoreflect"
	"google.golang.org/protobuf/runtime/protoiface"
)

// c15msg: model message with its own Reset method and a recording Unmarshal method.
type c15msg struct {
	protoreflect.Message
	log      *[]int // 1 = Reset, 2 = Unmarshal, 3 = CheckInitialized
	flags    *protoiface.UnmarshalInputFlags
	depth    *int
	initOut  bool
	failWith error
}

func (m c15msg) ProtoReflect() protoreflect.Message   { return m }
func (m c15msg) Interface() protoreflect.ProtoMessage { return m }
func (m c15msg) Reset()                               { *m.log = append(*m.log, 1) }
func (m c15msg) ProtoMethods() *protoiface.Methods {
	return &protoiface.Methods{
		Flags: protoiface.SupportUnmarshalDiscardUnknown,
		Unmarshal: func(in protoiface.UnmarshalInput) (protoiface.UnmarshalOutput, error) {
			*m.log = append(*m.log, 2)
			*m.flags = in.Flags
			*m.depth = in.Depth
			var out protoiface.UnmarshalOutput
			if m.initOut {
				out.Flags |= protoiface.UnmarshalInitialized
			}
			return out, m.failWith
		},
		CheckInitialized: func(in protoiface.CheckInitializedInput) (protoiface.CheckInitializedOutput, error) {
			*m.log = append(*m.log, 3)
			return protoiface.CheckInitializedOutput{}, nil
		},
	}
}

// H_C15_unmarshal_glue: proto.UnmarshalOptions.Unmarshal on a model message: the message is reset
// exactly once and before decoding iff Merge is false; the options reach the decoder unchanged
// (DiscardUnknown, NoLazyDecoding, required-field checking iff !AllowPartial, the recursion limit
// with its default); required fields are re-checked iff !AllowPartial and the decoder did not
// already report the message initialized.
//
//verif:props=C15,C10 bounds=all-option-combinations;recursion-limit-0-or-symbolic-positive;decoder-reports-initialized-or-not
func H_C15_unmarshal_glue() {
	var log []int
	var fl protoiface.UnmarshalInputFlags
	depth := 0
	m := c15msg{log: &log, flags: &fl, depth: &depth, initOut: nd.Bool()}
	o := UnmarshalOptions{Merge: nd.Bool(), AllowPartial: nd.Bool(), DiscardUnknown: nd.Bool(), NoLazyDecoding: nd.Bool()}
	limit := 0
	if nd.Bool() {
		limit = int(nd.Uint16()) + 1
	}
	o.RecursionLimit = limit
	err := o.Unmarshal(nd.Bytes(1), m)
	nd.Reach("unmarshalled")
	nd.Assert(err == nil, "no error from the model decoder")
	i := 0
	if !o.Merge {
		nd.Assert(len(log) > 0 && log[0] == 1, "without Merge the message is reset first")
		i = 1
	}
	nd.Assert(len(log) > i && log[i] == 2, "then the decoder runs (exactly one reset, before it)")
	resets := 0
	for _, e := range log {
		if e == 1 {
			resets++
		}
	}
	nd.Assert(resets == map[bool]int{true: 0, false: 1}[o.Merge], "Reset is applied iff Merge is false")
	nd.Assert((fl&protoiface.UnmarshalDiscardUnknown != 0) == o.DiscardUnknown, "DiscardUnknown reaches the decoder")
	nd.Assert((fl&protoiface.UnmarshalNoLazyDecoding != 0) == o.NoLazyDecoding, "NoLazyDecoding reaches the decoder")
	nd.Assert((fl&protoiface.UnmarshalCheckRequired != 0) == !o.AllowPartial, "required-field checking is requested iff AllowPartial is false")
	if limit == 0 {
		nd.Assert(depth == protowire.DefaultRecursionLimit, "default recursion limit")
	} else {
		nd.Assert(depth == limit, "recursion limit reaches the decoder")
	}
	checked := len(log) == i+2 && log[i+1] == 3
	nd.Assert(checked == (!o.AllowPartial && !m.initOut), "CheckInitialized runs iff partial messages are refused and the decoder did not vouch for the message")
}

// c15state: a model message in an arbitrary state for the reflective Reset.
type c15state struct {
	protoreflect.Message
	set     *[3]bool // populated state of three declared fields
	ext     *bool    // one populated extension-like field (only visible through Range)
	unknown *[]byte
}

type c15fd struct {
	protoreflect.FieldDescriptor
	idx int
}

type c15fds struct{ protoreflect.FieldDescriptors }

func (c15fds) Len() int                               { return 3 }
func (c15fds) Get(i int) protoreflect.FieldDescriptor { return c15fd{idx: i} }

type c15md struct{ protoreflect.MessageDescriptor }

func (c15md) Fields() protoreflect.FieldDescriptors { return c15fds{} }

func (m c15state) ProtoReflect() protoreflect.Message         { return m }
func (m c15state) IsValid() bool                              { return true }
func (m c15state) Descriptor() protoreflect.MessageDescriptor { return c15md{} }
func (m c15state) Clear(fd protoreflect.FieldDescriptor) {
	f := fd.(c15fd)
	if f.idx == 99 {
		*m.ext = false
	} else {
		m.set[f.idx] = false
	}
}
func (m c15state) Range(f func(protoreflect.FieldDescriptor, protoreflect.Value) bool) {
	for i := 0; i < 3; i++ {
		if m.set[i] && !f(c15fd{idx: i}, protoreflect.Value{}) {
			return
		}
	}
	if *m.ext {
		f(c15fd{idx: 99}, protoreflect.Value{})
	}
}
func (m c15state) SetUnknown(b protoreflect.RawFields) { *m.unknown = b }

// H_C15_reset: the reflective proto.Reset (used for messages without their own Reset method)
// leaves a message in an arbitrary state with no populated field (declared or extension) and no
// unknown fields.
//
//verif:props=C15 bounds=model-message-with-3-declared-fields+1-extension-field+unknown<=2-bytes-in-arbitrary-state
func H_C15_reset() {
	var set [3]bool
	for i := range set {
		set[i] = nd.Bool()
	}
	ext := nd.Bool()
	unknown := nd.Bytes(2)
	m := c15state{set: &set, ext: &ext, unknown: &unknown}
	Reset(m)
	nd.Reach("reset")
	nd.Assert(!set[0] && !set[1] && !set[2], "every declared field is cleared")
	nd.Assert(!ext, "extension fields are cleared")
	nd.Assert(len(unknown) == 0, "unknown fields are cleared")
	n := 0
	m.Range(func(protoreflect.FieldDescriptor, protoreflect.Value) bool { n++; return true })
	nd.Assert(n == 0, "Range visits nothing after Reset")
}
