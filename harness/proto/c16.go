//go:build verif

package proto

import (
	"google.golang.org/protobuf/internal/zzverif/nd"
	"google.golang.org/protobuf/reflect/protoreflect"
	"google.golang.org/protobuf/runtime/protoiface"
)

// c16msg is a model message with recording fast-path methods.
type c16msg struct {
	protoreflect.Message
	body      []byte
	log       *[]int // 1 = Size, 2 = Marshal, 3 = CheckInitialized
	sizeFlags *protoiface.MarshalInputFlags
	marFlags  *protoiface.MarshalInputFlags
	gotBuf    *[]byte
}

func (m c16msg) ProtoReflect() protoreflect.Message   { return m }
func (m c16msg) Interface() protoreflect.ProtoMessage { return m }
func (m c16msg) IsValid() bool                        { return true }
func (m c16msg) ProtoMethods() *protoiface.Methods {
	return &protoiface.Methods{
		Flags: protoiface.SupportMarshalDeterministic,
		Size: func(in protoiface.SizeInput) protoiface.SizeOutput {
			*m.log = append(*m.log, 1)
			*m.sizeFlags = in.Flags
			return protoiface.SizeOutput{Size: len(m.body)}
		},
		Marshal: func(in protoiface.MarshalInput) (protoiface.MarshalOutput, error) {
			*m.log = append(*m.log, 2)
			*m.marFlags = in.Flags
			*m.gotBuf = in.Buf
			return protoiface.MarshalOutput{Buf: append(in.Buf, m.body...)}, nil
		},
		CheckInitialized: func(in protoiface.CheckInitializedInput) (protoiface.CheckInitializedOutput, error) {
			*m.log = append(*m.log, 3)
			return protoiface.CheckInitializedOutput{}, nil
		},
	}
}

// H_C16_marshal_glue: proto.MarshalOptions.MarshalAppend on a model message: the cached-size
// flag is handed to the message's Marshal method only immediately after its Size method ran in
// the same call with the same options; the prefix is preserved (also when the buffer is regrown);
// required-field checking runs iff AllowPartial is false; Deterministic is passed through.
//
//verif:props=C16,C04 bounds=prefix<=2-bytes-with-spare-capacity-0..3;body<=3-bytes;all-option-combinations
func H_C16_marshal_glue() {
	pre := nd.Bytes(2)
	spare := nd.Int(0, 3)
	buf := make([]byte, len(pre), len(pre)+spare)
	copy(buf, pre)
	body := nd.Bytes(3)
	var log []int
	var sf, mf protoiface.MarshalInputFlags
	var got []byte
	m := c16msg{body: body, log: &log, sizeFlags: &sf, marFlags: &mf, gotBuf: &got}
	o := MarshalOptions{AllowPartial: nd.Bool(), Deterministic: nd.Bool()}
	out, err := o.MarshalAppend(buf, m)
	nd.Reach("marshalled")
	nd.Assert(err == nil, "marshal succeeds")
	nd.Assert(len(out) == len(pre)+len(body), "output is prefix followed by the message bytes (length)")
	if len(out) == len(pre)+len(body) {
		for i := range pre {
			nd.Assert(out[i] == pre[i], "prefix preserved")
		}
		for i := range body {
			nd.Assert(out[len(pre)+i] == body[i], "message bytes follow the prefix")
		}
	}
	nd.Assert(len(log) >= 2 && log[0] == 1 && log[1] == 2, "Size runs immediately before Marshal")
	nd.Assert(mf&protoiface.MarshalUseCachedSize != 0, "cached sizes are used only right after Size")
	nd.Assert(sf&protoiface.MarshalUseCachedSize == 0, "Size itself never trusts cached sizes")
	nd.Assert((mf&protoiface.MarshalDeterministic != 0) == o.Deterministic && (sf&protoiface.MarshalDeterministic != 0) == o.Deterministic, "Deterministic is passed to Size and Marshal alike")
	nd.Assert(len(got) == len(pre) && cap(got) >= len(pre)+len(body), "Marshal is handed the prefix with room for the message")
	checked := len(log) == 3 && log[2] == 3
	nd.Assert(checked == !o.AllowPartial, "required fields are checked iff AllowPartial is false")
	nd.Assert(Size(m) == len(body), "proto.Size is the Size method's answer")
}
