//go:build verif

package proto

import (
	"google.golang.org/protobuf/encoding/protowire"
	"google.golang.org/protobuf/internal/zzverif/nd"
)

// H_C04_speclen: the reflection encoder reserves one byte for a length prefix and fixes it up
// afterwards; for every payload length across the 1->2 and 2->3 byte prefix boundaries the result
// is prefix ++ varint(len) ++ payload.
//
//verif:props=C04,C03 bounds=prefix<=2-bytes;payload-length-0..130-and-16380..16390(content-of-first/last-2-bytes-symbolic) maxsteps=6000000 ccap=200
func H_C04_speclen() {
	pre := nd.Bytes(2)
	var n int
	if nd.Bool() {
		n = nd.Int(0, 130)
	} else {
		n = nd.Int(16380, 16390)
	}
	body := make([]byte, n)
	if n > 0 {
		body[0] = nd.Byte()
		body[n-1] = nd.Byte()
	}
	if n > 2 {
		body[1] = nd.Byte()
		body[n-2] = nd.Byte()
	}
	b := append([]byte(nil), pre...)
	b, pos := appendSpeculativeLength(b)
	b = append(b, body...)
	b = finishSpeculativeLength(b, pos)
	nd.Reach("finished")
	want := protowire.AppendVarint(append([]byte(nil), pre...), uint64(n))
	want = append(want, body...)
	nd.Assert(len(b) == len(want), "length = prefix + varint(len) + payload")
	if len(b) == len(want) {
		// the bytes that carry information: prefix, length varint, symbolic payload positions
		for i := 0; i < len(pre)+protowire.SizeVarint(uint64(n)); i++ {
			nd.Assert(b[i] == want[i], "prefix and length varint")
		}
		off := len(want) - n
		if n > 0 {
			nd.Assert(b[off] == want[off] && b[len(b)-1] == want[len(want)-1], "payload ends in place")
		}
		if n > 2 {
			nd.Assert(b[off+1] == want[off+1] && b[len(b)-2] == want[len(want)-2], "payload second/penultimate byte in place")
		}
	}
	v, k := protowire.ConsumeBytes(b[len(pre):])
	nd.Assert(k == len(b)-len(pre) && len(v) == n, "the result parses as one length-delimited value of the payload length")
}
