//go:build verif

package proto

import (
	"math"

	"google.golang.org/protobuf/encoding/protowire"
	"google.golang.org/protobuf/internal/zzverif/nd"
	"google.golang.org/protobuf/reflect/protoreflect"
)

// c03fd is a stub field descriptor with a concrete kind.
type c03fd struct {
	protoreflect.FieldDescriptor
	kind   protoreflect.Kind
	syntax protoreflect.Syntax
}

func (f c03fd) Kind() protoreflect.Kind         { return f.kind }
func (f c03fd) Syntax() protoreflect.Syntax     { return f.syntax }
func (f c03fd) Number() protoreflect.FieldNumber { return 1 }
func (f c03fd) FullName() protoreflect.FullName  { return "v.f" }

var c03kinds = [14]protoreflect.Kind{
	protoreflect.BoolKind, protoreflect.EnumKind, protoreflect.Int32Kind, protoreflect.Sint32Kind,
	protoreflect.Uint32Kind, protoreflect.Int64Kind, protoreflect.Sint64Kind, protoreflect.Uint64Kind,
	protoreflect.Sfixed32Kind, protoreflect.Fixed32Kind, protoreflect.Sfixed64Kind,
	protoreflect.Fixed64Kind, protoreflect.DoubleKind, protoreflect.BytesKind,
}

func c03value(k protoreflect.Kind) protoreflect.Value {
	switch k {
	case protoreflect.BoolKind:
		return protoreflect.ValueOfBool(nd.Bool())
	case protoreflect.EnumKind:
		return protoreflect.ValueOfEnum(protoreflect.EnumNumber(nd.Int32()))
	case protoreflect.Int32Kind, protoreflect.Sint32Kind, protoreflect.Sfixed32Kind:
		return protoreflect.ValueOfInt32(nd.Int32())
	case protoreflect.Uint32Kind, protoreflect.Fixed32Kind:
		return protoreflect.ValueOfUint32(nd.Uint32())
	case protoreflect.Int64Kind, protoreflect.Sint64Kind, protoreflect.Sfixed64Kind:
		return protoreflect.ValueOfInt64(nd.Int64())
	case protoreflect.Uint64Kind, protoreflect.Fixed64Kind:
		return protoreflect.ValueOfUint64(nd.Uint64())
	case protoreflect.DoubleKind:
		return protoreflect.ValueOfFloat64(nd.Float64())
	default:
		return protoreflect.ValueOfBytes(nd.Bytes(3))
	}
}

// H_C03_reflection_leaf: the reflection codec's leaf functions (used for dynamicpb and every
// message without fast-path methods): for every scalar kind and every value,
// unmarshalScalar(marshalSingular(v)) == v, consuming exactly the bytes written, whose count is
// sizeSingular; the wire type accepted is the kind's wire type and any other is errUnknown.
//
//verif:props=C03,C04 bounds=14-scalar-kinds(all-but-float/string/message/group);full-width-values;bytes<=3
func H_C03_reflection_leaf() {
	ki := nd.Int(0, 13)
	k := c03kinds[ki]
	fd := c03fd{kind: k, syntax: protoreflect.Proto2}
	v := c03value(k)
	b, err := MarshalOptions{}.marshalSingular(nil, fd, v)
	nd.Assert(err == nil, "scalar marshals")
	nd.Assert(len(b) == MarshalOptions{}.sizeSingular(1, k, v), "sizeSingular equals the marshalled length")
	wt := wireTypes[k]
	rest := nd.Bytes(1)
	in := append(append([]byte(nil), b...), rest...)
	got, n, uerr := UnmarshalOptions{}.unmarshalScalar(in, wt, fd)
	nd.Reach("decoded")
	nd.Assert(uerr == nil, "scalar decodes with its wire type")
	if uerr == nil {
		nd.Assert(n == len(b), "consumes exactly the bytes written")
		if k == protoreflect.DoubleKind {
			// compare bit patterns (NaN payloads must survive too); float32 is left out because
			// its Value representation widens to float64 (needs the FP theory, slow)
			nd.Assert(math.Float64bits(got.Float()) == math.Float64bits(v.Float()), "double bit pattern round trips")
		} else {
			nd.Assert(got.Equal(v), "value round trips")
		}
	}
	other := protowire.Type(nd.Int(0, 5))
	if other != wt {
		_, _, oerr := UnmarshalOptions{}.unmarshalScalar(in, other, fd)
		nd.Assert(oerr == errUnknown, "any other wire type is reported as unknown (kept as unknown field)")
	}
}
