//go:build verif

package protojson

import (
	"google.golang.org/protobuf/internal/zzverif/nd"
)

func c23digit(c byte) bool { return '0' <= c && c <= '9' }

// refDuration is a recogniser for the documented Duration JSON grammar
//
//	[+-]? ( int ( "." digit{0,9} )? | "." digit{1,9} ) "s"     int = "0" | [1-9] digit*
//
// verdict: 1 = must accept (with the returned value), 0 = must reject,
// -1 = not specified by the property (integer part with a redundant leading zero).
func refDuration(s string) (secs int64, nanos int32, verdict int) {
	n := len(s)
	if n < 2 || s[n-1] != 's' {
		return 0, 0, 0
	}
	b := s[:n-1]
	neg := false
	if b[0] == '-' || b[0] == '+' {
		neg = b[0] == '-'
		b = b[1:]
	}
	i := 0
	for i < len(b) && c23digit(b[i]) {
		i++
	}
	intDigits := i
	fracDigits := 0
	if i < len(b) {
		if b[i] != '.' {
			return 0, 0, 0
		}
		j := i + 1
		for j < len(b) && c23digit(b[j]) {
			j++
		}
		if j != len(b) {
			return 0, 0, 0
		}
		fracDigits = j - (i + 1)
	}
	if intDigits == 0 && fracDigits == 0 {
		return 0, 0, 0 // neither an integer nor a fractional part
	}
	if fracDigits > 9 {
		return 0, 0, 0
	}
	if intDigits > 1 && b[0] == '0' {
		return 0, 0, -1
	}
	// up to 18 digits always fit in int64; longer integer parts are the subject of
	// H_C23_duration_limits (this reference does not specify them)
	if intDigits > 18 {
		return 0, 0, -1
	}
	for k := 0; k < intDigits; k++ {
		secs = secs*10 + int64(b[k]-'0')
	}
	var ns int32
	for k := 0; k < 9; k++ {
		ns *= 10
		if k < fracDigits {
			ns += int32(b[intDigits+1+k] - '0')
		}
	}
	if neg {
		secs, ns = -secs, -ns
	}
	return secs, ns, 1
}

// H_C23_duration: parseDuration accepts exactly the documented grammar and computes the exact
// (seconds, nanos) pair with the sign applied to both.
//
//verif:props=C23 bounds=all-strings<=6(quick)/8(thorough)
func H_C23_duration() {
	N := 6
	if nd.Thorough() {
		N = 8
	}
	s := nd.String(N)
	secs, nanos, ok := parseDuration(s)
	rs, rn, verdict := refDuration(s)
	if verdict == 1 {
		nd.Reach("grammatical")
		nd.Assert(ok, "grammatical Duration is accepted")
		if ok {
			nd.Assert(secs == rs, "seconds exact")
			nd.Assert(nanos == rn, "nanos exact")
		}
	}
	if verdict == 0 {
		nd.Reach("ungrammatical")
		nd.Assert(!ok, "ungrammatical Duration is rejected")
	}
	if ok {
		nd.Reach("accepted")
		nd.Assert((secs >= 0 && nanos >= 0) || (secs <= 0 && nanos <= 0), "signs agree")
		nd.Assert(nanos > -1000000000 && nanos < 1000000000, "nanos in range")
	}
}

// H_C23_duration_long: long literals: 0..13 integer digits (crossing the maxSecondsInDuration =
// 315576000000 boundary at 12 digits) followed by no, 0, 1, 9 or 10 fractional digits. The
// int64/uint64 limits (19/20 digits) are covered by H_C23_duration_limits.
// Shapes are case-split, digits are symbolic.
//
//verif:props=C23 bounds=sign?+intdigits-in-0..13+fracdigits-in{none,0,1,9,10} solver=cvc5-int timeout=20000 deadline=600
func H_C23_duration_long() {
	ni := nd.Int(0, 13)
	nfSel := nd.Int(0, 4)
	nf := []int{-1, 0, 1, 9, 10}[nfSel] // -1: no dot
	sign := nd.Int(0, 2)
	var b []byte
	if sign == 1 {
		b = append(b, '-')
	} else if sign == 2 {
		b = append(b, '+')
	}
	id := nd.BytesN(ni)
	for i := 0; i < ni; i++ {
		nd.Assume(c23digit(id[i]))
	}
	b = append(b, id...)
	if nf >= 0 {
		b = append(b, '.')
		fd := nd.BytesN(nf)
		for i := 0; i < nf; i++ {
			nd.Assume(c23digit(fd[i]))
		}
		b = append(b, fd...)
	}
	b = append(b, 's')
	s := string(b)
	secs, nanos, ok := parseDuration(s)
	rs, rn, verdict := refDuration(s)
	if verdict == 1 {
		nd.Reach("grammatical")
		nd.Assert(ok, "grammatical Duration is accepted")
		if ok {
			nd.Assert(secs == rs, "seconds exact")
			nd.Assert(nanos == rn, "nanos exact")
		}
	}
	if verdict == 0 {
		nd.Reach("ungrammatical")
		nd.Assert(!ok, "ungrammatical Duration is rejected")
	}
}

// H_C23_duration_limits: integer parts around 2^63 and 2^64 (a concrete 16/17-digit prefix and
// three symbolic digits), optional sign and optional one-digit fraction: a seconds value that
// does not fit in int64 must be rejected, anything below must be parsed exactly.
//
//verif:props=C23 bounds=sign?;prefix-of-2^63-or-2^64+3-symbolic-digits;optional-fraction-digit solver=z3 timeout=30000
func H_C23_duration_limits() {
	sign := nd.Int(0, 2)
	prefix := "9223372036854775"
	if nd.Bool() {
		prefix = "18446744073709551"
	}
	d := nd.BytesN(3)
	for i := range d {
		nd.Assume(c23digit(d[i]))
	}
	var b []byte
	if sign == 1 {
		b = append(b, '-')
	} else if sign == 2 {
		b = append(b, '+')
	}
	b = append(b, prefix...)
	b = append(b, d...)
	if nd.Bool() {
		f := nd.Byte()
		nd.Assume(c23digit(f))
		b = append(b, '.', f)
	}
	b = append(b, 's')
	tail := uint64(d[0]-'0')*100 + uint64(d[1]-'0')*10 + uint64(d[2]-'0')
	secs, _, ok := parseDuration(string(b))
	nd.Reach("parsed")
	if len(prefix) == 16 {
		fits := tail <= 807
		nd.Assert(ok == fits, "seconds fitting int64 are accepted, larger ones rejected")
		if ok && fits {
			nd.Reach("accepted")
			want := int64(9223372036854775000 + tail)
			if sign == 1 {
				want = -want
			}
			nd.Assert(secs == want, "seconds exact")
		}
	} else {
		nd.Assert(!ok, "a 20-digit seconds value never fits and is rejected")
	}
}
