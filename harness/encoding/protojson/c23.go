//go:build verif

package protojson

import (
	"google.golang.org/protobuf/internal/encoding/json"
	"google.golang.org/protobuf/reflect/protoreflect"

	"google.golang.org/protobuf/internal/zzverif/nd"
)

func c23digit(c byte) bool { return '0' <= c && c <= '9' }

// refDuration is a recogniser for the documented Duration JSON grammar
//
//	[+-]? ( int ( "." digit{0,9} )? | "." digit{1,9} ) "s"     int = "0" | [1-9] digit*
//
// verdict: 1 = must accept (with the returned value), 0 = must reject,
// -1 = not specified by the property (integer part with a redundant leading zero).
func refDuration(s string) (secs int64, nanos int32, verdict int) {
	n := len(s)
	if n < 2 || s[n-1] != 's' {
		return 0, 0, 0
	}
	b := s[:n-1]
	neg := false
	if b[0] == '-' || b[0] == '+' {
		neg = b[0] == '-'
		b = b[1:]
	}
	i := 0
	for i < len(b) && c23digit(b[i]) {
		i++
	}
	intDigits := i
	fracDigits := 0
	if i < len(b) {
		if b[i] != '.' {
			return 0, 0, 0
		}
		j := i + 1
		for j < len(b) && c23digit(b[j]) {
			j++
		}
		if j != len(b) {
			return 0, 0, 0
		}
		fracDigits = j - (i + 1)
	}
	if intDigits == 0 && fracDigits == 0 {
		return 0, 0, 0 // neither an integer nor a fractional part
	}
	if fracDigits > 9 {
		return 0, 0, 0
	}
	if intDigits > 1 && b[0] == '0' {
		return 0, 0, -1
	}
	// up to 18 digits always fit in int64; longer integer parts are the subject of
	// H_C23_duration_limits (this reference does not specify them)
	if intDigits > 18 {
		return 0, 0, -1
	}
	for k := 0; k < intDigits; k++ {
		secs = secs*10 + int64(b[k]-'0')
	}
	var ns int32
	for k := 0; k < 9; k++ {
		ns *= 10
		if k < fracDigits {
			ns += int32(b[intDigits+1+k] - '0')
		}
	}
	if neg {
		secs, ns = -secs, -ns
	}
	return secs, ns, 1
}

// H_C23_duration: parseDuration accepts exactly the documented grammar and computes the exact
// (seconds, nanos) pair with the sign applied to both.
//
//verif:props=C23 bounds=all-strings<=6(quick)/8(thorough)
func H_C23_duration() {
	N := 6
	if nd.Thorough() {
		N = 8
	}
	s := nd.String(N)
	secs, nanos, ok := parseDuration(s)
	rs, rn, verdict := refDuration(s)
	if verdict == 1 {
		nd.Reach("grammatical")
		nd.Assert(ok, "grammatical Duration is accepted")
		if ok {
			nd.Assert(secs == rs, "seconds exact")
			nd.Assert(nanos == rn, "nanos exact")
		}
	}
	if verdict == 0 {
		nd.Reach("ungrammatical")
		nd.Assert(!ok, "ungrammatical Duration is rejected")
	}
	if ok {
		nd.Reach("accepted")
		nd.Assert((secs >= 0 && nanos >= 0) || (secs <= 0 && nanos <= 0), "signs agree")
		nd.Assert(nanos > -1000000000 && nanos < 1000000000, "nanos in range")
	}
}

// H_C23_duration_long: long literals: 0..13 integer digits (crossing the maxSecondsInDuration =
// 315576000000 boundary at 12 digits) followed by no, 0, 1, 9 or 10 fractional digits. The
// int64/uint64 limits (19/20 digits) are covered by H_C23_duration_limits.
// Shapes are case-split, digits are symbolic.
//
//verif:props=C23 bounds=sign?+intdigits-in-0..13+fracdigits-in{none,0,1,9,10} solver=cvc5-int timeout=20000 deadline=600
func H_C23_duration_long() {
	ni := nd.Int(0, 13)
	nfSel := nd.Int(0, 4)
	nf := []int{-1, 0, 1, 9, 10}[nfSel] // -1: no dot
	sign := nd.Int(0, 2)
	var b []byte
	if sign == 1 {
		b = append(b, '-')
	} else if sign == 2 {
		b = append(b, '+')
	}
	id := nd.BytesN(ni)
	for i := 0; i < ni; i++ {
		nd.Assume(c23digit(id[i]))
	}
	b = append(b, id...)
	if nf >= 0 {
		b = append(b, '.')
		fd := nd.BytesN(nf)
		for i := 0; i < nf; i++ {
			nd.Assume(c23digit(fd[i]))
		}
		b = append(b, fd...)
	}
	b = append(b, 's')
	s := string(b)
	secs, nanos, ok := parseDuration(s)
	rs, rn, verdict := refDuration(s)
	if verdict == 1 {
		nd.Reach("grammatical")
		nd.Assert(ok, "grammatical Duration is accepted")
		if ok {
			nd.Assert(secs == rs, "seconds exact")
			nd.Assert(nanos == rn, "nanos exact")
		}
	}
	if verdict == 0 {
		nd.Reach("ungrammatical")
		nd.Assert(!ok, "ungrammatical Duration is rejected")
	}
}

// H_C23_duration_limits: integer parts around 2^63 and 2^64 (a concrete 16/17-digit prefix and
// three symbolic digits), optional sign and optional one-digit fraction: a seconds value that
// does not fit in int64 must be rejected, anything below must be parsed exactly.
//
//verif:props=C23 bounds=sign?;prefix-of-2^63-or-2^64+3-symbolic-digits;optional-fraction-digit solver=z3 timeout=30000
func H_C23_duration_limits() {
	sign := nd.Int(0, 2)
	prefix := "9223372036854775"
	if nd.Bool() {
		prefix = "18446744073709551"
	}
	d := nd.BytesN(3)
	for i := range d {
		nd.Assume(c23digit(d[i]))
	}
	var b []byte
	if sign == 1 {
		b = append(b, '-')
	} else if sign == 2 {
		b = append(b, '+')
	}
	b = append(b, prefix...)
	b = append(b, d...)
	if nd.Bool() {
		f := nd.Byte()
		nd.Assume(c23digit(f))
		b = append(b, '.', f)
	}
	b = append(b, 's')
	tail := uint64(d[0]-'0')*100 + uint64(d[1]-'0')*10 + uint64(d[2]-'0')
	secs, _, ok := parseDuration(string(b))
	nd.Reach("parsed")
	if len(prefix) == 16 {
		fits := tail <= 807
		nd.Assert(ok == fits, "seconds fitting int64 are accepted, larger ones rejected")
		if ok && fits {
			nd.Reach("accepted")
			want := int64(9223372036854775000 + tail)
			if sign == 1 {
				want = -want
			}
			nd.Assert(secs == want, "seconds exact")
		}
	} else {
		nd.Assert(!ok, "a 20-digit seconds value never fits and is rejected")
	}
}

// ---- model Duration message for the range check in unmarshalDuration ----

type c23fd struct {
	protoreflect.FieldDescriptor
	num protoreflect.FieldNumber
}

func (f c23fd) Number() protoreflect.FieldNumber { return f.num }

type c23fields struct{ protoreflect.FieldDescriptors }

func (c23fields) ByNumber(n protoreflect.FieldNumber) protoreflect.FieldDescriptor { return c23fd{num: n} }

type c23md struct{ protoreflect.MessageDescriptor }

func (c23md) Fields() protoreflect.FieldDescriptors { return c23fields{} }

type c23msg struct {
	protoreflect.Message
	secs  *int64
	nanos *int32
	sets  *int
}

func (m c23msg) Descriptor() protoreflect.MessageDescriptor { return c23md{} }
func (m c23msg) Set(fd protoreflect.FieldDescriptor, v protoreflect.Value) {
	*m.sets++
	switch fd.Number() {
	case 1:
		*m.secs = v.Int()
	case 2:
		*m.nanos = int32(v.Int())
	}
}

// H_C23_duration_range: unmarshalDuration rejects seconds outside +-315576000000 (10000 years)
// and stores exactly (seconds, nanos) otherwise: quoted literals whose integer part is a concrete
// 10-digit prefix just below / at the limit followed by two symbolic digits, optional sign and
// one optional fraction digit.
//
//verif:props=C23 bounds=quoted-literal;sign?;prefix-3155759999-or-3155760000+2-symbolic-digits;optional-fraction-digit
func H_C23_duration_range() {
	sign := nd.Int(0, 1)
	prefix := "3155759999"
	base := int64(315575999900)
	if nd.Bool() {
		prefix = "3155760000"
		base = 315576000000
	}
	d := nd.BytesN(2)
	nd.Assume(c23digit(d[0]) && c23digit(d[1]))
	in := []byte{'"'}
	if sign == 1 {
		in = append(in, '-')
	}
	in = append(in, prefix...)
	in = append(in, d...)
	frac := nd.Bool()
	var fd byte
	if frac {
		fd = nd.Byte()
		nd.Assume(c23digit(fd))
		in = append(in, '.', fd)
	}
	in = append(in, 's', '"')
	var secs int64
	var nanos int32
	sets := 0
	dec := decoder{json.NewDecoder(in), UnmarshalOptions{}}
	err := dec.unmarshalDuration(c23msg{secs: &secs, nanos: &nanos, sets: &sets})
	want := base + int64(d[0]-'0')*10 + int64(d[1]-'0')
	nd.Reach("parsed")
	if want > 315576000000 {
		nd.Reach("out of range")
		nd.Assert(err != nil, "seconds beyond 10000 years are rejected")
		nd.Assert(sets == 0, "nothing is stored for a rejected value")
	} else {
		nd.Reach("in range")
		nd.Assert(err == nil, "seconds within 10000 years are accepted")
		if err == nil {
			wn := int32(0)
			if frac {
				wn = int32(fd-'0') * 100000000
			}
			if sign == 1 {
				want, wn = -want, -wn
			}
			nd.Assert(secs == want && nanos == wn, "stored seconds and nanos are exact")
		}
	}
}
