//go:build verif

package protojson

import (
	"math/bits"

	"google.golang.org/protobuf/internal/zzverif/nd"
)

func c23digit(c byte) bool { return '0' <= c && c <= '9' }

// refDuration is a recogniser for the documented Duration JSON grammar
//
//	[+-]? ( int ( "." digit{0,9} )? | "." digit{1,9} ) "s"     int = "0" | [1-9] digit*
//
// verdict: 1 = must accept (with the returned value), 0 = must reject,
// -1 = not specified by the property (integer part with a redundant leading zero).
func refDuration(s string) (secs int64, nanos int32, verdict int) {
	n := len(s)
	if n < 2 || s[n-1] != 's' {
		return 0, 0, 0
	}
	b := s[:n-1]
	neg := false
	if b[0] == '-' || b[0] == '+' {
		neg = b[0] == '-'
		b = b[1:]
	}
	i := 0
	for i < len(b) && c23digit(b[i]) {
		i++
	}
	intDigits := i
	fracDigits := 0
	if i < len(b) {
		if b[i] != '.' {
			return 0, 0, 0
		}
		j := i + 1
		for j < len(b) && c23digit(b[j]) {
			j++
		}
		if j != len(b) {
			return 0, 0, 0
		}
		fracDigits = j - (i + 1)
	}
	if intDigits == 0 && fracDigits == 0 {
		return 0, 0, 0 // neither an integer nor a fractional part
	}
	if fracDigits > 9 {
		return 0, 0, 0
	}
	if intDigits > 1 && b[0] == '0' {
		return 0, 0, -1
	}
	// an integer part that does not fit in int64 cannot be represented: must be rejected
	var us uint64
	fits := true
	for k := 0; k < intDigits; k++ {
		hi, lo := bits.Mul64(us, 10)
		sum, c := bits.Add64(lo, uint64(b[k]-'0'), 0)
		f := hi == 0 && c == 0
		fits = fits && f
		us = sum
	}
	if !fits || us > 1<<63-1 {
		return 0, 0, 0
	}
	secs = int64(us)
	var ns int32
	for k := 0; k < 9; k++ {
		ns *= 10
		if k < fracDigits {
			ns += int32(b[intDigits+1+k] - '0')
		}
	}
	if neg {
		secs, ns = -secs, -ns
	}
	return secs, ns, 1
}

// H_C23_duration: parseDuration accepts exactly the documented grammar and computes the exact
// (seconds, nanos) pair with the sign applied to both.
//
//verif:props=C23 bounds=all-strings<=6(quick)/8(thorough)
func H_C23_duration() {
	N := 6
	if nd.Thorough() {
		N = 8
	}
	s := nd.String(N)
	secs, nanos, ok := parseDuration(s)
	rs, rn, verdict := refDuration(s)
	if verdict == 1 {
		nd.Reach("grammatical")
		nd.Assert(ok, "grammatical Duration is accepted")
		if ok {
			nd.Assert(secs == rs, "seconds exact")
			nd.Assert(nanos == rn, "nanos exact")
		}
	}
	if verdict == 0 {
		nd.Reach("ungrammatical")
		nd.Assert(!ok, "ungrammatical Duration is rejected")
	}
	if ok {
		nd.Reach("accepted")
		nd.Assert((secs >= 0 && nanos >= 0) || (secs <= 0 && nanos <= 0), "signs agree")
		nd.Assert(nanos > -1000000000 && nanos < 1000000000, "nanos in range")
	}
}

// H_C23_duration_long: long literals: 0..13 and 18..20 integer digits (crossing the
// maxSecondsInDuration = 315576000000 boundary at 12 digits and the int64/uint64 limits at 19/20
// digits) followed by no, 0, 1, 9 or 10 fractional digits.
// Shapes are case-split, digits are symbolic.
//
//verif:props=C23 bounds=sign?+intdigits-in{0..13,18,19,20}+fracdigits-in{none,0,1,9,10} solver=cvc5-int timeout=20000 deadline=1500
func H_C23_duration_long() {
	ni := nd.Int(0, 16)
	if ni > 13 {
		ni += 4 // 18, 19, 20: around the int64 and uint64 limits
	}
	nfSel := nd.Int(0, 4)
	nf := []int{-1, 0, 1, 9, 10}[nfSel] // -1: no dot
	sign := nd.Int(0, 2)
	var b []byte
	if sign == 1 {
		b = append(b, '-')
	} else if sign == 2 {
		b = append(b, '+')
	}
	id := nd.BytesN(ni)
	for i := 0; i < ni; i++ {
		nd.Assume(c23digit(id[i]))
	}
	b = append(b, id...)
	if nf >= 0 {
		b = append(b, '.')
		fd := nd.BytesN(nf)
		for i := 0; i < nf; i++ {
			nd.Assume(c23digit(fd[i]))
		}
		b = append(b, fd...)
	}
	b = append(b, 's')
	s := string(b)
	secs, nanos, ok := parseDuration(s)
	rs, rn, verdict := refDuration(s)
	if verdict == 1 {
		nd.Reach("grammatical")
		nd.Assert(ok, "grammatical Duration is accepted")
		if ok {
			nd.Assert(secs == rs, "seconds exact")
			nd.Assert(nanos == rn, "nanos exact")
		}
	}
	if verdict == 0 {
		nd.Reach("ungrammatical")
		nd.Assert(!ok, "ungrammatical Duration is rejected")
	}
}
