//go:build verif

package protojson

import (
	"encoding/base64"

	"google.golang.org/protobuf/internal/encoding/json"
	"google.golang.org/protobuf/reflect/protoreflect"

	"google.golang.org/protobuf/internal/zzverif/nd"
)

func c23digit(c byte) bool { return '0' <= c && c <= '9' }

// refDuration is a recogniser for the documented Duration JSON grammar
//
//	[+-]? ( int ( "." digit{0,9} )? | "." digit{1,9} ) "s"     int = "0" | [1-9] digit*
//
// verdict: 1 = must accept (with the returned value), 0 = must reject,
// -1 = not specified by the property (integer part with a redundant leading zero).
func refDuration(s string) (secs int64, nanos int32, verdict int) {
	n := len(s)
	if n < 2 || s[n-1] != 's' {
		return 0, 0, 0
	}
	b := s[:n-1]
	neg := false
	if b[0] == '-' || b[0] == '+' {
		neg = b[0] == '-'
		b = b[1:]
	}
	i := 0
	for i < len(b) && c23digit(b[i]) {
		i++
	}
	intDigits := i
	fracDigits := 0
	if i < len(b) {
		if b[i] != '.' {
			return 0, 0, 0
		}
		j := i + 1
		for j < len(b) && c23digit(b[j]) {
			j++
		}
		if j != len(b) {
			return 0, 0, 0
		}
		fracDigits = j - (i + 1)
	}
	if intDigits == 0 && fracDigits == 0 {
		return 0, 0, 0 // neither an integer nor a fractional part
	}
	if fracDigits > 9 {
		return 0, 0, 0
	}
	if intDigits > 1 && b[0] == '0' {
		return 0, 0, -1
	}
	// up to 18 digits always fit in int64; longer integer parts are the subject of
	// H_C23_duration_limits (this reference does not specify them)
	if intDigits > 18 {
		return 0, 0, -1
	}
	for k := 0; k < intDigits; k++ {
		secs = secs*10 + int64(b[k]-'0')
	}
	var ns int32
	for k := 0; k < 9; k++ {
		ns *= 10
		if k < fracDigits {
			ns += int32(b[intDigits+1+k] - '0')
		}
	}
	if neg {
		secs, ns = -secs, -ns
	}
	return secs, ns, 1
}

// H_C23_duration: parseDuration accepts exactly the documented grammar and computes the exact
// (seconds, nanos) pair with the sign applied to both.
//
//verif:props=C23 bounds=all-strings<=6(quick)/8(thorough)
func H_C23_duration() {
	N := 6
	if nd.Thorough() {
		N = 8
	}
	s := nd.String(N)
	secs, nanos, ok := parseDuration(s)
	rs, rn, verdict := refDuration(s)
	if verdict == 1 {
		nd.Reach("grammatical")
		nd.Assert(ok, "grammatical Duration is accepted")
		if ok {
			nd.Assert(secs == rs, "seconds exact")
			nd.Assert(nanos == rn, "nanos exact")
		}
	}
	if verdict == 0 {
		nd.Reach("ungrammatical")
		nd.Assert(!ok, "ungrammatical Duration is rejected")
	}
	if ok {
		nd.Reach("accepted")
		nd.Assert((secs >= 0 && nanos >= 0) || (secs <= 0 && nanos <= 0), "signs agree")
		nd.Assert(nanos > -1000000000 && nanos < 1000000000, "nanos in range")
	}
}

// H_C23_duration_long: long literals: 0..13 integer digits (crossing the maxSecondsInDuration =
// 315576000000 boundary at 12 digits) followed by no, 0, 1, 9 or 10 fractional digits. The
// int64/uint64 limits (19/20 digits) are covered by H_C23_duration_limits.
// Shapes are case-split, digits are symbolic.
//
//verif:props=C23 bounds=sign?+intdigits-in-0..13+fracdigits-in{none,0,1,9,10} solver=cvc5-int timeout=20000 deadline=600
func H_C23_duration_long() {
	ni := nd.Int(0, 13)
	nfSel := nd.Int(0, 4)
	nf := []int{-1, 0, 1, 9, 10}[nfSel] // -1: no dot
	sign := nd.Int(0, 2)
	var b []byte
	if sign == 1 {
		b = append(b, '-')
	} else if sign == 2 {
		b = append(b, '+')
	}
	id := nd.BytesN(ni)
	for i := 0; i < ni; i++ {
		nd.Assume(c23digit(id[i]))
	}
	b = append(b, id...)
	if nf >= 0 {
		b = append(b, '.')
		fd := nd.BytesN(nf)
		for i := 0; i < nf; i++ {
			nd.Assume(c23digit(fd[i]))
		}
		b = append(b, fd...)
	}
	b = append(b, 's')
	s := string(b)
	secs, nanos, ok := parseDuration(s)
	rs, rn, verdict := refDuration(s)
	if verdict == 1 {
		nd.Reach("grammatical")
		nd.Assert(ok, "grammatical Duration is accepted")
		if ok {
			nd.Assert(secs == rs, "seconds exact")
			nd.Assert(nanos == rn, "nanos exact")
		}
	}
	if verdict == 0 {
		nd.Reach("ungrammatical")
		nd.Assert(!ok, "ungrammatical Duration is rejected")
	}
}

// H_C23_duration_limits: integer parts around 2^63 and 2^64 (a concrete 16/17-digit prefix and
// three symbolic digits), optional sign and optional one-digit fraction: a seconds value that
// does not fit in int64 must be rejected, anything below must be parsed exactly.
//
//verif:props=C23 bounds=sign?;prefix-of-2^63-or-2^64+3-symbolic-digits;optional-fraction-digit solver=z3 timeout=30000
func H_C23_duration_limits() {
	sign := nd.Int(0, 2)
	prefix := "9223372036854775"
	if nd.Bool() {
		prefix = "18446744073709551"
	}
	d := nd.BytesN(3)
	for i := range d {
		nd.Assume(c23digit(d[i]))
	}
	var b []byte
	if sign == 1 {
		b = append(b, '-')
	} else if sign == 2 {
		b = append(b, '+')
	}
	b = append(b, prefix...)
	b = append(b, d...)
	if nd.Bool() {
		f := nd.Byte()
		nd.Assume(c23digit(f))
		b = append(b, '.', f)
	}
	b = append(b, 's')
	tail := uint64(d[0]-'0')*100 + uint64(d[1]-'0')*10 + uint64(d[2]-'0')
	secs, _, ok := parseDuration(string(b))
	nd.Reach("parsed")
	if len(prefix) == 16 {
		fits := tail <= 807
		nd.Assert(ok == fits, "seconds fitting int64 are accepted, larger ones rejected")
		if ok && fits {
			nd.Reach("accepted")
			want := int64(9223372036854775000 + tail)
			if sign == 1 {
				want = -want
			}
			nd.Assert(secs == want, "seconds exact")
		}
	} else {
		nd.Assert(!ok, "a 20-digit seconds value never fits and is rejected")
	}
}

// ---- model Duration message for the range check in unmarshalDuration ----

type c23fd struct {
	protoreflect.FieldDescriptor
	num protoreflect.FieldNumber
}

func (f c23fd) Number() protoreflect.FieldNumber { return f.num }

type c23fields struct{ protoreflect.FieldDescriptors }

func (c23fields) ByNumber(n protoreflect.FieldNumber) protoreflect.FieldDescriptor { return c23fd{num: n} }

type c23md struct{ protoreflect.MessageDescriptor }

func (c23md) Fields() protoreflect.FieldDescriptors { return c23fields{} }

type c23msg struct {
	protoreflect.Message
	secs  *int64
	nanos *int32
	sets  *int
}

func (m c23msg) Descriptor() protoreflect.MessageDescriptor { return c23md{} }
func (m c23msg) Set(fd protoreflect.FieldDescriptor, v protoreflect.Value) {
	*m.sets++
	switch fd.Number() {
	case 1:
		*m.secs = v.Int()
	case 2:
		*m.nanos = int32(v.Int())
	}
}

// H_C23_duration_range: unmarshalDuration rejects seconds outside +-315576000000 (10000 years)
// and stores exactly (seconds, nanos) otherwise: quoted literals whose integer part is a concrete
// 10-digit prefix just below / at the limit followed by two symbolic digits, optional sign and
// one optional fraction digit.
//
//verif:props=C23 bounds=quoted-literal;sign?;prefix-3155759999-or-3155760000+2-symbolic-digits;optional-fraction-digit
func H_C23_duration_range() {
	sign := nd.Int(0, 1)
	prefix := "3155759999"
	base := int64(315575999900)
	if nd.Bool() {
		prefix = "3155760000"
		base = 315576000000
	}
	d := nd.BytesN(2)
	nd.Assume(c23digit(d[0]) && c23digit(d[1]))
	in := []byte{'"'}
	if sign == 1 {
		in = append(in, '-')
	}
	in = append(in, prefix...)
	in = append(in, d...)
	frac := nd.Bool()
	var fd byte
	if frac {
		fd = nd.Byte()
		nd.Assume(c23digit(fd))
		in = append(in, '.', fd)
	}
	in = append(in, 's', '"')
	var secs int64
	var nanos int32
	sets := 0
	dec := decoder{json.NewDecoder(in), UnmarshalOptions{}}
	err := dec.unmarshalDuration(c23msg{secs: &secs, nanos: &nanos, sets: &sets})
	want := base + int64(d[0]-'0')*10 + int64(d[1]-'0')
	nd.Reach("parsed")
	if want > 315576000000 {
		nd.Reach("out of range")
		nd.Assert(err != nil, "seconds beyond 10000 years are rejected")
		nd.Assert(sets == 0, "nothing is stored for a rejected value")
	} else {
		nd.Reach("in range")
		nd.Assert(err == nil, "seconds within 10000 years are accepted")
		if err == nil {
			wn := int32(0)
			if frac {
				wn = int32(fd-'0') * 100000000
			}
			if sign == 1 {
				want, wn = -want, -wn
			}
			nd.Assert(secs == want && nanos == wn, "stored seconds and nanos are exact")
		}
	}
}

// H_C22_quoted: integer fields accept quoted numbers exactly like unquoted ones: for every
// string s over the number alphabet, "s" is accepted iff s is, as a whole, a JSON number that the
// unquoted path accepts, with the same value; leading/trailing space and trailing garbage are rejected.
//
//verif:props=C22 bounds=quoted-strings<=3(quick)/4(thorough)-bytes-over[0-9eE+-.space];int32/int64/uint32/uint64
func H_C22_quoted() {
	N := 3
	if nd.Thorough() {
		N = 4
	}
	s := nd.String(N)
	for i := 0; i < len(s); i++ {
		c := s[i]
		nd.Assume(c23digit(c) || c == 'e' || c == 'E' || c == '+' || c == '-' || c == '.' || c == ' ')
	}
	q := append(append([]byte{'"'}, s...), '"')
	tq, err := json.NewDecoder(q).Read()
	nd.Assert(err == nil && tq.Kind() == json.String, "quoted content is a string token")
	if err != nil {
		return
	}
	// the unquoted path on the same content (must be exactly one number token)
	dn := json.NewDecoder([]byte(s))
	tn, nerr := dn.Read()
	whole := false
	if nerr == nil && tn.Kind() == json.Number {
		next, e2 := dn.Read()
		whole = e2 == nil && next.Kind() == json.EOF && len(tn.RawString()) == len(s)
	}
	bits := 32
	if nd.Bool() {
		bits = 64
	}
	if nd.Bool() {
		vq, okq := unmarshalInt(tq, bits)
		if whole {
			nd.Reach("number (signed)")
			vn, okn := unmarshalInt(tn, bits)
			nd.Assert(okq == okn, "quoted and unquoted integers are accepted alike")
			if okq && okn {
				nd.Assert(vq.Int() == vn.Int(), "same value")
			}
		} else {
			nd.Reach("not a number (signed)")
			nd.Assert(!okq, "a quoted non-number (or a number with surrounding garbage) is rejected")
		}
	} else {
		vq, okq := unmarshalUint(tq, bits)
		if whole {
			nd.Reach("number (unsigned)")
			vn, okn := unmarshalUint(tn, bits)
			nd.Assert(okq == okn, "quoted and unquoted unsigned integers are accepted alike")
			if okq && okn {
				nd.Assert(vq.Uint() == vn.Uint(), "same value")
			}
		} else {
			nd.Reach("not a number (unsigned)")
			nd.Assert(!okq, "a quoted non-number is rejected")
		}
	}
}

// H_C22_bytes: bytes fields: what protojson writes for a bytes value (standard base64 with
// padding) is read back exactly; the URL-safe alphabet and unpadded forms of the same value are
// accepted on input with the same result.
//
//verif:props=C22 bounds=all-byte-strings<=2(quick)/3(thorough);4-base64-variants(std,url,raw-std,raw-url) maxsteps=6000000 deadline=900
func H_C22_bytes() {
	N := 2
	if nd.Thorough() {
		N = 3
	}
	b := nd.Bytes(N)
	var s string
	switch nd.Int(0, 3) {
	case 0:
		s = base64.StdEncoding.EncodeToString(b)
		nd.Reach("standard")
	case 1:
		s = base64.URLEncoding.EncodeToString(b)
		nd.Reach("url-safe")
	case 2:
		s = base64.RawStdEncoding.EncodeToString(b)
		nd.Reach("unpadded")
	default:
		s = base64.RawURLEncoding.EncodeToString(b)
		nd.Reach("unpadded url-safe")
	}
	q := append(append([]byte{'"'}, s...), '"')
	tok, err := json.NewDecoder(q).Read()
	nd.Assert(err == nil && tok.Kind() == json.String, "base64 text is a plain JSON string")
	if err != nil {
		return
	}
	v, ok := unmarshalBytes(tok)
	nd.Assert(ok, "every base64 form of the value is accepted")
	if ok {
		got := v.Bytes()
		same := len(got) == len(b)
		if same {
			for i := range b {
				e := got[i] == b[i]
				same = same && e
			}
		}
		nd.Assert(same, "bytes value decodes exactly")
	}
}

// ---- model FieldMask message ----

type c23list struct {
	protoreflect.List
	vs *[]string
}

func (l c23list) Len() int                    { return len(*l.vs) }
func (l c23list) Get(i int) protoreflect.Value { return protoreflect.ValueOfString((*l.vs)[i]) }
func (l c23list) Append(v protoreflect.Value)  { *l.vs = append(*l.vs, v.String()) }
func (l c23list) IsValid() bool                { return true }

type c23mask struct {
	protoreflect.Message
	paths *[]string
}

func (m c23mask) Descriptor() protoreflect.MessageDescriptor { return c23md{} }
func (m c23mask) Get(protoreflect.FieldDescriptor) protoreflect.Value {
	return protoreflect.ValueOfList(c23list{vs: m.paths})
}
func (m c23mask) Mutable(protoreflect.FieldDescriptor) protoreflect.Value {
	return protoreflect.ValueOfList(c23list{vs: m.paths})
}

func c23strEq(a, b string) bool {
	if len(a) != len(b) {
		return false
	}
	ok := true
	for i := 0; i < len(a); i++ {
		ok = ok && a[i] == b[i]
	}
	return ok
}

// H_C23_fieldmask: FieldMask JSON form: for a mask with one or two paths over identifier
// characters, marshalFieldMask fails for invalid or irreversible paths and otherwise writes a
// JSON string that unmarshalFieldMask reads back as exactly the same paths.
//
//verif:props=C23,C20 bounds=1..2-paths-of<=3-bytes-over[a-zA-Z0-9_.] ifconv=1 maxsteps=6000000
func H_C23_fieldmask() {
	n := nd.Int(1, 2)
	paths := make([]string, n)
	for i := range paths {
		p := nd.String(3)
		for k := 0; k < len(p); k++ {
			c := p[k]
			nd.Assume(('a' <= c && c <= 'z') || ('A' <= c && c <= 'Z') || c23digit(c) || c == '_' || c == '.')
		}
		paths[i] = p
	}
	in := append([]string(nil), paths...)
	enc, _ := json.NewEncoder(nil, "")
	err := encoder{enc, MarshalOptions{}}.marshalFieldMask(c23mask{paths: &in})
	if err != nil {
		nd.Reach("refused")
		return
	}
	nd.Reach("marshalled")
	out := enc.Bytes()
	var back []string
	dec := decoder{json.NewDecoder(out), UnmarshalOptions{}}
	uerr := dec.unmarshalFieldMask(c23mask{paths: &back})
	nd.Assert(uerr == nil, "what marshalFieldMask writes is accepted by unmarshalFieldMask")
	if uerr == nil {
		nd.Assert(len(back) == n, "same number of paths")
		if len(back) == n {
			for i := range paths {
				nd.Assert(c23strEq(back[i], paths[i]), "path round trips exactly")
			}
		}
	}
}
