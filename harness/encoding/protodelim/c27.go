//go:build verif

package protodelim

import (
	"bufio"
	"errors"
	"io"

	"google.golang.org/protobuf/encoding/protowire"
	"google.golang.org/protobuf/internal/zzverif/nd"
	"google.golang.org/protobuf/reflect/protoreflect"
	"google.golang.org/protobuf/runtime/protoiface"
)

var errC27Stub = errors.New("stub unmarshal error")

// c27msg is a model message: its fast-path Unmarshal method records what it is handed.
type c27msg struct {
	protoreflect.Message // nil: any other reflective use panics (and would be reported)
	got                  *[]byte
	calls                *int
	resets               *int
	fail                 bool
}

func (m c27msg) ProtoReflect() protoreflect.Message   { return m }
func (m c27msg) Interface() protoreflect.ProtoMessage { return m }
func (m c27msg) Reset()                               { *m.resets++ }
func (m c27msg) ProtoMethods() *protoiface.Methods {
	return &protoiface.Methods{
		Flags: protoiface.SupportUnmarshalDiscardUnknown,
		Unmarshal: func(in protoiface.UnmarshalInput) (protoiface.UnmarshalOutput, error) {
			*m.calls++
			*m.got = append([]byte(nil), in.Buf...)
			if m.fail {
				return protoiface.UnmarshalOutput{}, errC27Stub
			}
			return protoiface.UnmarshalOutput{Flags: protoiface.UnmarshalInitialized}, nil
		},
	}
}

// c27reader is a conforming Reader over a fixed stream. chunk limits how many bytes one Read
// returns (1 = byte-at-a-time); eofWithData makes the last Read return data together with io.EOF.
type c27reader struct {
	data        []byte
	pos         int
	chunk       int
	eofWithData bool
}

func (r *c27reader) ReadByte() (byte, error) {
	if r.pos >= len(r.data) {
		return 0, io.EOF
	}
	b := r.data[r.pos]
	r.pos++
	return b, nil
}

func (r *c27reader) Read(p []byte) (int, error) {
	if r.pos >= len(r.data) {
		return 0, io.EOF
	}
	n := len(p)
	if n > r.chunk {
		n = r.chunk
	}
	if n > len(r.data)-r.pos {
		n = len(r.data) - r.pos
	}
	copy(p, r.data[r.pos:r.pos+n])
	r.pos += n
	if r.eofWithData && r.pos == len(r.data) {
		return n, io.EOF
	}
	return n, nil
}

// c27tooLarge finds a *SizeTooLargeError in err's Unwrap chain (what errors.As does).
func c27tooLarge(err error) (*SizeTooLargeError, bool) {
	for k := 0; k < 3 && err != nil; k++ {
		if tl, ok := err.(*SizeTooLargeError); ok {
			return tl, true
		}
		err = nd.Unwrap(err)
	}
	return nil, false
}

func c27eq(a, b []byte) bool {
	if len(a) != len(b) {
		return false
	}
	ok := true
	for i := range a {
		ok = ok && a[i] == b[i]
	}
	return ok
}

// H_C27_unmarshalfrom: framing of one message from an arbitrary stream.
//
//verif:props=C27 bounds=stream<=5(quick)/6(thorough)-bytes;MaxSize-in-1..4-symbolic-or-default-or-unlimited-with-size<=8;3-reader-behaviours
func H_C27_unmarshalfrom() {
	N := 5
	if nd.Thorough() {
		N = 6
	}
	stream := nd.Bytes(N)
	mode := nd.Int(0, 2)
	var maxSize int64
	switch mode {
	case 0:
		maxSize = nd.Int64()
		nd.Assume(maxSize >= 1 && maxSize <= 4)
	case 1:
		maxSize = 0
	default:
		maxSize = -1
	}
	rmode := nd.Int(0, 2)
	rd := &c27reader{data: stream, chunk: 64}
	if rmode == 1 {
		rd.chunk = 1
	}
	if rmode == 2 {
		rd.eofWithData = true
	}
	// reference decoding of the size prefix
	size, sn := protowire.ConsumeVarint(stream)
	if mode != 0 && sn > 0 {
		nd.Assume(size <= 8) // larger bodies are outside the shape bound (see H_C27_toolarge)
	}
	var got []byte
	calls, resets := 0, 0
	m := c27msg{got: &got, calls: &calls, resets: &resets, fail: nd.Bool()}
	err := UnmarshalOptions{MaxSize: maxSize}.UnmarshalFrom(rd, m)

	eff := uint64(maxSize)
	if maxSize == 0 {
		eff = defaultMaxSize
	}
	if maxSize == -1 {
		eff = 1<<63 - 1
	}
	switch {
	case len(stream) == 0:
		nd.Reach("empty stream")
		nd.Assert(err == io.EOF, "clean end of stream is io.EOF")
		nd.Assert(calls == 0, "nothing decoded at end of stream")
	case sn < 0:
		nd.Reach("truncated size")
		nd.Assert(err == io.ErrUnexpectedEOF, "stream truncated inside the size is io.ErrUnexpectedEOF")
		nd.Assert(calls == 0, "nothing decoded from a truncated size")
	case size > eff:
		nd.Reach("too large")
		tl, isTL := c27tooLarge(err)
		nd.Assert(isTL, "size above MaxSize is a SizeTooLargeError")
		if tl != nil {
			nd.Assert(tl.Size == size && tl.MaxSize == eff, "error carries size and limit")
		}
		nd.Assert(calls == 0, "oversized message is not decoded")
		nd.Assert(rd.pos == sn, "only the size prefix was consumed")
	case uint64(len(stream)-sn) < size:
		nd.Reach("truncated body")
		nd.Assert(err == io.ErrUnexpectedEOF, "stream truncated inside the body is io.ErrUnexpectedEOF")
		nd.Assert(calls == 0, "truncated body is not decoded")
	default:
		nd.Reach("complete message")
		nd.Assert(calls == 1, "decoded exactly once")
		nd.Assert(resets == 1, "message reset before decoding")
		nd.Assert(c27eq(got, stream[sn:sn+int(size)]), "decoder received exactly the body bytes")
		nd.Assert(rd.pos == sn+int(size), "consumed exactly size prefix + body")
		if m.fail {
			nd.Assert(err == errC27Stub, "decode error is returned")
		} else {
			nd.Assert(err == nil, "success")
		}
	}
}

// H_C27_toolarge: the size limit comparison for every uint64 size and every MaxSize setting.
//
//verif:props=C27 bounds=all-uint64-sizes;all-int64-MaxSize>=-1
func H_C27_toolarge() {
	size := nd.Uint64()
	maxSize := nd.Int64()
	nd.Assume(maxSize >= -1)
	eff := uint64(maxSize)
	if maxSize == 0 {
		eff = defaultMaxSize
	}
	if maxSize == -1 {
		eff = 1<<63 - 1
	}
	nd.Assume(size > eff)
	stream := protowire.AppendVarint(nil, size)
	rd := &c27reader{data: stream, chunk: 64}
	var got []byte
	calls, resets := 0, 0
	m := c27msg{got: &got, calls: &calls, resets: &resets}
	err := UnmarshalOptions{MaxSize: maxSize}.UnmarshalFrom(rd, m)
	nd.Reach("rejected")
	tl, isTL := c27tooLarge(err)
	nd.Assert(isTL, "size above MaxSize is a SizeTooLargeError")
	if tl != nil {
		nd.Assert(tl.Size == size && tl.MaxSize == eff, "error carries size and limit")
	}
	nd.Assert(calls == 0, "oversized message is not decoded")
}

type c27writer struct {
	out   []byte
	calls int
}

func (w *c27writer) Write(p []byte) (int, error) {
	w.calls++
	w.out = append(w.out, p...)
	return len(p), nil
}

type c27wmsg struct {
	protoreflect.Message
	body []byte
}

func (m c27wmsg) ProtoReflect() protoreflect.Message   { return m }
func (m c27wmsg) Interface() protoreflect.ProtoMessage { return m }
func (m c27wmsg) IsValid() bool                        { return true }
func (m c27wmsg) ProtoMethods() *protoiface.Methods {
	return &protoiface.Methods{
		Size: func(in protoiface.SizeInput) protoiface.SizeOutput {
			return protoiface.SizeOutput{Size: len(m.body)}
		},
		Marshal: func(in protoiface.MarshalInput) (protoiface.MarshalOutput, error) {
			return protoiface.MarshalOutput{Buf: append(in.Buf, m.body...)}, nil
		},
		CheckInitialized: func(in protoiface.CheckInitializedInput) (protoiface.CheckInitializedOutput, error) {
			return protoiface.CheckInitializedOutput{}, nil
		},
	}
}

// H_C27_marshalto: MarshalTo writes varint(len) followed by the message bytes, and what it
// writes is read back by UnmarshalFrom as the same body, message after message.
//
//verif:props=C27 bounds=two-messages-of<=3-bytes
func H_C27_marshalto() {
	b1, b2 := nd.Bytes(3), nd.Bytes(3)
	w := &c27writer{}
	n1, err1 := MarshalTo(w, c27wmsg{body: b1})
	n2, err2 := MarshalTo(w, c27wmsg{body: b2})
	nd.Reach("written")
	nd.Assert(err1 == nil && err2 == nil, "writes succeed")
	want := protowire.AppendVarint(nil, uint64(len(b1)))
	want = append(want, b1...)
	want = protowire.AppendVarint(want, uint64(len(b2)))
	want = append(want, b2...)
	nd.Assert(c27eq(w.out, want), "stream is varint(len) ++ body per message")
	nd.Assert(n1+n2 == len(want), "reported byte counts")
	// read back
	rd := &c27reader{data: w.out, chunk: 1}
	for k := 0; k < 2; k++ {
		var got []byte
		calls, resets := 0, 0
		m := c27msg{got: &got, calls: &calls, resets: &resets}
		err := UnmarshalFrom(rd, m)
		nd.Assert(err == nil, "read back succeeds")
		if k == 0 {
			nd.Assert(c27eq(got, b1), "first message body")
		} else {
			nd.Assert(c27eq(got, b2), "second message body")
		}
	}
	var got []byte
	calls, resets := 0, 0
	err := UnmarshalFrom(rd, c27msg{got: &got, calls: &calls, resets: &resets})
	nd.Assert(err == io.EOF, "io.EOF exactly at the clean boundary after the last message")
}

// H_C27_bufio: the bufio.Reader fast path (Peek/Discard, falling back to io.ReadFull when the
// message does not fit the buffer): a real bufio.Reader with a 16-byte buffer over a stream holding
// one message of size 0..20 (first/last body byte symbolic) truncated at every point, followed by
// nothing: same verdicts as the generic path, the decoder sees exactly the body, and the next
// call reports io.EOF exactly at the clean boundary.
//
//verif:props=C27 bounds=bufio.Reader(16-byte-buffer);message-size-0..20;every-truncation-point;underlying-reads-of-1-or-64-bytes maxsteps=8000000 ccap=80
func H_C27_bufio() {
	size := nd.Int(0, 20)
	avail := nd.Int(0, size) // body bytes actually present
	body := make([]byte, size)
	if size > 0 {
		body[0] = nd.Byte()
		body[size-1] = nd.Byte()
	}
	stream := protowire.AppendVarint(nil, uint64(size))
	stream = append(stream, body[:avail]...)
	chunk := 64
	if nd.Bool() {
		chunk = 1
	}
	rd := bufio.NewReaderSize(&c27reader{data: stream, chunk: chunk}, 16)
	var got []byte
	calls, resets := 0, 0
	m := c27msg{got: &got, calls: &calls, resets: &resets}
	err := UnmarshalOptions{MaxSize: 64}.UnmarshalFrom(rd, m)
	if avail < size {
		nd.Reach("truncated body")
		nd.Assert(err == io.ErrUnexpectedEOF, "stream truncated inside the body is io.ErrUnexpectedEOF")
		nd.Assert(calls == 0, "truncated body is not decoded")
		return
	}
	nd.Reach("complete message")
	nd.Assert(err == nil, "complete message is accepted")
	nd.Assert(calls == 1 && c27eq(got, body), "decoder received exactly the body bytes")
	var got2 []byte
	calls2, resets2 := 0, 0
	err2 := UnmarshalOptions{MaxSize: 64}.UnmarshalFrom(rd, c27msg{got: &got2, calls: &calls2, resets: &resets2})
	nd.Assert(err2 == io.EOF, "io.EOF exactly at the clean boundary after the message")
	nd.Assert(calls2 == 0, "nothing decoded at end of stream")
}
