//go:build verif

package protowire

import (
	"io"

	"google.golang.org/protobuf/internal/zzverif/nd"
)

// Reference scanner with error classes, written from the wire grammar in the
// property text: -1 truncated, -2 bad field number, -3 varint overflow,
// -4 reserved wire type, -5 end-group mismatch / stray end group, -6 recursion.

func rVarint(b []byte) (uint64, int) {
	var v uint64
	for i := 0; i < 10; i++ {
		if i >= len(b) {
			return 0, -1
		}
		c := b[i]
		if i == 9 && c > 1 {
			return 0, -3
		}
		v |= uint64(c&0x7f) << (7 * uint(i))
		if c < 0x80 {
			return v, i + 1
		}
	}
	return 0, -3
}

// rTag: field number must be >= 1 and fit in int32 (what ConsumeTag documents).
func rTag(b []byte) (uint64, uint64, int) {
	t, n := rVarint(b)
	if n < 0 {
		return 0, 0, n
	}
	num := t >> 3
	if num < 1 || num > 0x7fffffff {
		return 0, 0, -2
	}
	return num, t & 7, n
}

func rValue(num, typ uint64, b []byte, depth int) int {
	switch typ {
	case 0:
		_, n := rVarint(b)
		return n
	case 5:
		if len(b) < 4 {
			return -1
		}
		return 4
	case 1:
		if len(b) < 8 {
			return -1
		}
		return 8
	case 2:
		m, n := rVarint(b)
		if n < 0 {
			return n
		}
		if m > uint64(len(b)-n) {
			return -1
		}
		return n + int(m)
	case 3:
		if depth < 0 {
			return -6
		}
		off := 0
		for {
			num2, typ2, n := rTag(b[off:])
			if n < 0 {
				return n
			}
			off += n
			if typ2 == 4 {
				if num2 != num {
					return -5
				}
				return off
			}
			m := rValue(num2, typ2, b[off:], depth-1)
			if m < 0 {
				return m
			}
			off += m
		}
	case 4:
		return -5
	}
	return -4
}

func rField(b []byte, depth int) (uint64, uint64, int) {
	num, typ, n := rTag(b)
	if n < 0 {
		return 0, 0, n
	}
	m := rValue(num, typ, b[n:], depth)
	if m < 0 {
		return 0, 0, m
	}
	return num, typ, n + m
}

func checkField(b []byte) {
	num, typ, n := ConsumeField(b)
	rnum, rtyp, rn := rField(b, DefaultRecursionLimit)
	nd.Assert(n <= len(b), "never reports more than the input")
	nd.Assert(n == rn, "length / error code equals the grammar's")
	if n >= 0 {
		nd.Reach("accepted")
		nd.Assert(uint64(num) == rnum, "field number")
		nd.Assert(uint64(typ) == rtyp, "wire type")
		nd.Assert(n > 0, "progress")
	} else {
		nd.Reach("rejected")
		nd.Assert(num == 0 && typ == 0, "zero results on error")
	}
}

// H_C02_field: ConsumeField against the grammar on every byte string up to N bytes.
//
//verif:props=C02 bounds=all-byte-strings<=5(quick)/7(thorough)
func H_C02_field() {
	N := 5
	if nd.Thorough() {
		N = 7
	}
	b := nd.Bytes(N)
	checkField(b)
}

// H_C02_parts: ConsumeTag, ConsumeFieldValue and ConsumeGroup individually.
//
//verif:props=C02 bounds=all-byte-strings<=4(quick)/6(thorough);any-num-typ
func H_C02_parts() {
	N := 4
	if nd.Thorough() {
		N = 6
	}
	b := nd.Bytes(N)
	num, typ, n := ConsumeTag(b)
	rnum, rtyp, rn := rTag(b)
	nd.Assert(n == rn, "ConsumeTag length/error")
	nd.Assert(n <= len(b), "ConsumeTag bound")
	if n >= 0 {
		nd.Assert(uint64(num) == rnum && uint64(typ) == rtyp, "ConsumeTag values")
	}
	// value parser with an arbitrary (already parsed) number and type
	vnum := Number(nd.Int32())
	nd.Assume(vnum >= 1)
	vtyp := Type(nd.Byte())
	nd.Assume(vtyp >= 0 && vtyp <= 7)
	m := ConsumeFieldValue(vnum, vtyp, b)
	rm := rValue(uint64(vnum), uint64(vtyp), b, DefaultRecursionLimit)
	nd.Assert(m == rm, "ConsumeFieldValue length/error")
	nd.Assert(m <= len(b), "ConsumeFieldValue bound")
	nd.Reach("value checked")
	v, g := ConsumeGroup(vnum, b)
	rg := rValue(uint64(vnum), 3, b, DefaultRecursionLimit)
	nd.Assert(g == rg, "ConsumeGroup length/error")
	nd.Assert(g <= len(b), "ConsumeGroup bound")
	if g >= 0 {
		nd.Reach("group accepted")
		nd.Assert(len(v) <= g, "group body within consumed bytes")
		// body followed by the end tag (possibly padded) spans exactly g bytes and the body parses as fields
		nd.Assert(vBytesEq(v, b[:len(v)]), "group body is a prefix of the input")
		_, et, en := rTag(b[len(v):g])
		nd.Assert(et == 4 && len(v)+en == g, "body is followed by exactly the end tag")
	} else {
		nd.Assert(v == nil, "nil body on error")
	}
}

// H_C02_longvarint: the deep arms of ConsumeVarint (9th/10th byte) that uniform short inputs never reach.
//
//verif:props=C02 bounds=all-byte-strings-of-length-8..11
func H_C02_longvarint() {
	n := nd.Int(8, 11)
	b := nd.BytesN(n)
	v, k := ConsumeVarint(b)
	rv, rk := rVarint(b)
	nd.Assert(k == rk, "ConsumeVarint length/error")
	nd.Assert(k <= len(b), "bound")
	if k >= 0 {
		nd.Assert(v == rv, "ConsumeVarint value")
		if k == 10 {
			nd.Reach("ten-byte varint")
		}
	} else {
		if k == -3 {
			nd.Reach("overflow")
		}
		nd.Assert(v == 0, "zero on error")
	}
}

// H_C02_longfield: 12-byte inputs whose first tag is fixed to each scalar wire type so that
// long varint values, long length prefixes and fixed-width tails are reached.
//
//verif:props=C02 bounds=first-byte=field1-wiretype-0/1/2/5/4/6/7;then-11-free-bytes
func H_C02_longfield() {
	typ := nd.Int(0, 7)
	nd.Assume(typ != 3)
	rest := nd.BytesN(11)
	b := append([]byte{byte(1<<3 | typ)}, rest...)
	checkField(b)
	nd.Reach("checked")
}

// H_C02_longgroup: a group whose body starts with a varint field of at least 9 bytes,
// followed by 3 free bytes (end tag, stray bytes, mismatching end tags).
//
//verif:props=C02 bounds=group{field2-varint>=9-bytes}+3-free-bytes
func H_C02_longgroup() {
	vb := nd.BytesN(10)
	for i := 0; i < 8; i++ {
		nd.Assume(vb[i] >= 0x80)
	}
	tail := nd.BytesN(3)
	b := append([]byte{1<<3 | 3, 2<<3 | 0}, vb...)
	b = append(b, tail...)
	checkField(b)
	nd.Reach("checked")
}

// H_C02_longtag: tags of 5..10 bytes: field numbers near 2^29, 2^31 and the int32 overflow rejection.
//
//verif:props=C02 bounds=all-byte-strings-of-length-5..10-as-tags
func H_C02_longtag() {
	n := nd.Int(5, 10)
	b := nd.BytesN(n)
	num, typ, k := ConsumeTag(b)
	rnum, rtyp, rk := rTag(b)
	nd.Assert(k == rk, "ConsumeTag length/error")
	if k >= 0 {
		nd.Assert(uint64(num) == rnum && uint64(typ) == rtyp, "ConsumeTag values")
		if num > MaxValidNumber {
			nd.Reach("number above 2^29-1 accepted by protowire")
		}
	}
	if k == -2 {
		nd.Reach("field number rejected")
	}
}

// H_C02_depth: the recursion accounting with small symbolic limits.
//
//verif:props=C02 bounds=all-byte-strings<=5(quick)/6(thorough);depth-1..2
func H_C02_depth() {
	N := 5
	if nd.Thorough() {
		N = 6
	}
	d := nd.Int(-1, 2)
	b := nd.Bytes(N)
	num := Number(nd.Int32())
	nd.Assume(num >= 1)
	n := consumeFieldValueD(num, StartGroupType, b, d)
	rn := rValue(uint64(num), 3, b, d)
	nd.Assert(n == rn, "group nesting within limit <=> accepted; beyond => recursion error")
	if n == -6 {
		nd.Reach("recursion limit hit")
	}
	if n >= 0 {
		nd.Reach("nested group accepted")
	}
}

// H_C02_parseerror: error codes map to the documented errors.
//
//verif:props=C02 bounds=all-int
func H_C02_parseerror() {
	n := int(nd.Int64())
	err := ParseError(n)
	if n >= 0 {
		nd.Assert(err == nil, "non-negative => nil")
		return
	}
	nd.Assert(err != nil, "negative => error")
	switch n {
	case -1:
		nd.Assert(err == io.ErrUnexpectedEOF, "truncated")
	case -2:
		nd.Assert(err == errFieldNumber, "field number")
	case -3:
		nd.Assert(err == errOverflow, "overflow")
	case -4:
		nd.Assert(err == errReserved, "reserved")
	case -5:
		nd.Assert(err == errEndGroup, "end group")
	default:
		nd.Assert(err == errParse, "generic parse error")
	}
	nd.Reach("mapped")
}
