//go:build verif

package protowire

import "google.golang.org/protobuf/internal/zzverif/nd"

func vBytesEq(a, b []byte) bool {
	if len(a) != len(b) {
		return false
	}
	ok := true
	for i := range a {
		ok = ok && a[i] == b[i]
	}
	return ok
}

// refVarintLen is the shortest-encoding length written from the wire spec:
// one byte per started group of 7 significant bits.
func refVarintLen(v uint64) int {
	n := 1
	for t := uint64(1) << 7; n < 10 && v >= t; t <<= 7 {
		n++
	}
	return n
}

// H_C01_varint: every uint64 round-trips, consuming exactly SizeVarint bytes, shortest form.
//
//verif:props=C01 bounds=all-uint64;prefix<=2
func H_C01_varint() {
	v := nd.Uint64()
	pre := nd.Bytes(2)
	b := AppendVarint(pre, v)
	w, n := ConsumeVarint(b[len(pre):])
	nd.Reach("decoded")
	nd.Assert(n == len(b)-len(pre), "consumes exactly what was appended")
	nd.Assert(w == v, "value")
	nd.Assert(n == SizeVarint(v), "SizeVarint")
	nd.Assert(n == refVarintLen(v), "shortest")
	nd.Assert(vBytesEq(b[:len(pre)], pre), "prefix preserved")
	// trailing garbage does not change what is consumed
	b = append(b, nd.Byte())
	w2, n2 := ConsumeVarint(b[len(pre):])
	nd.Assert(w2 == v, "value with trailing byte")
	nd.Assert(n2 == n, "length with trailing byte")
}

// H_C01_fixed: fixed32/fixed64 round trip.
//
//verif:props=C01 bounds=all-uint32/uint64;prefix<=2
func H_C01_fixed() {
	pre := nd.Bytes(2)
	v := nd.Uint32()
	b := AppendFixed32(pre, v)
	w, n := ConsumeFixed32(b[len(pre):])
	nd.Reach("fixed32")
	nd.Assert(w == v, "fixed32 value")
	nd.Assert(n == 4, "fixed32 n")
	nd.Assert(n == SizeFixed32(), "fixed32 size")
	nd.Assert(len(b) == len(pre)+4, "fixed32 len")
	nd.Assert(vBytesEq(b[:len(pre)], pre), "fixed32 prefix")
	v64 := nd.Uint64()
	b = AppendFixed64(pre, v64)
	w64, n := ConsumeFixed64(b[len(pre):])
	nd.Reach("fixed64")
	nd.Assert(w64 == v64, "fixed64 value")
	nd.Assert(n == 8, "fixed64 n")
	nd.Assert(n == SizeFixed64(), "fixed64 size")
	nd.Assert(len(b) == len(pre)+8, "fixed64 len")
	nd.Assert(vBytesEq(b[:len(pre)], pre), "fixed64 prefix")
}

// H_C01_zigzag: ZigZag is a bijection with the documented mapping.
//
//verif:props=C01 bounds=all-int64/uint64
func H_C01_zigzag() {
	x := nd.Int64()
	u := EncodeZigZag(x)
	nd.Assert(DecodeZigZag(u) == x, "decode(encode(x)) == x")
	var ref uint64
	if x >= 0 {
		ref = uint64(x) * 2
	} else {
		ref = uint64(-(x + 1))*2 + 1
	}
	nd.Assert(u == ref, "documented mapping")
	y := nd.Uint64()
	nd.Assert(EncodeZigZag(DecodeZigZag(y)) == y, "encode(decode(u)) == u")
	nd.Reach("done")
}

// H_C01_bool: bool codec.
//
//verif:props=C01 bounds=all
func H_C01_bool() {
	b := nd.Bool()
	nd.Assert(DecodeBool(EncodeBool(b)) == b, "bool round trip")
	nd.Assert(EncodeBool(b) <= 1, "bool encodes to 0/1")
	x := nd.Uint64()
	nd.Assert(DecodeBool(x) == (x != 0), "decode bool")
	nd.Reach("done")
}

// H_C01_tag: tags round-trip for every valid field number and every 3-bit type.
//
//verif:props=C01 bounds=num<=2^29-1;typ0..7;prefix<=2
func H_C01_tag() {
	num := Number(nd.Int32())
	typ := Type(nd.Byte())
	nd.Assume(num >= 1 && num <= MaxValidNumber)
	nd.Assume(typ >= 0 && typ <= 7)
	x := EncodeTag(num, typ)
	n2, t2 := DecodeTag(x)
	nd.Assert(n2 == num, "DecodeTag num")
	nd.Assert(t2 == typ, "DecodeTag typ")
	pre := nd.Bytes(2)
	b := AppendTag(pre, num, typ)
	n3, t3, n := ConsumeTag(b[len(pre):])
	nd.Reach("consumed")
	nd.Assert(n == len(b)-len(pre), "ConsumeTag length")
	nd.Assert(n3 == num, "ConsumeTag num")
	nd.Assert(t3 == typ, "ConsumeTag typ")
	nd.Assert(n == SizeTag(num), "SizeTag")
	nd.Assert(vBytesEq(b[:len(pre)], pre), "prefix")
	// DecodeTag overflow rule
	y := nd.Uint64()
	dn, dt := DecodeTag(y)
	if y>>3 > 0x7fffffff {
		nd.Assert(dn == -1 && dt == 0, "DecodeTag overflow")
	} else {
		nd.Assert(uint64(dn) == y>>3, "DecodeTag num in range")
		nd.Assert(uint64(dt) == y&7, "DecodeTag typ in range")
		nd.Assert(EncodeTag(dn, dt) == y, "EncodeTag(DecodeTag)")
	}
}

// H_C01_bytes: length-prefixed bytes and strings.
//
//verif:props=C01 bounds=payload<=4;prefix<=2
func H_C01_bytes() {
	pre := nd.Bytes(2)
	v := nd.Bytes(4)
	b := AppendBytes(pre, v)
	w, n := ConsumeBytes(b[len(pre):])
	nd.Reach("bytes")
	nd.Assert(n == len(b)-len(pre), "bytes n")
	nd.Assert(vBytesEq(w, v), "bytes value")
	nd.Assert(n == SizeBytes(len(v)), "SizeBytes")
	nd.Assert(vBytesEq(b[:len(pre)], pre), "bytes prefix")
	s := string(v)
	b2 := AppendString(pre, s)
	nd.Assert(vBytesEq(b2, b), "AppendString == AppendBytes")
	ws, n2 := ConsumeString(b2[len(pre):])
	nd.Assert(n2 == n, "string n")
	nd.Assert(ws == s, "string value")
}

// H_C01_sizebytes: SizeBytes over every non-negative length.
//
//verif:props=C01 bounds=all-nonnegative-int63-lengths
func H_C01_sizebytes() {
	n := int(nd.Int64())
	nd.Assume(n >= 0 && n < 1<<62)
	nd.Assert(SizeBytes(n) == refVarintLen(uint64(n))+n, "SizeBytes")
	num := Number(nd.Int32())
	nd.Assume(num >= 1 && num <= MaxValidNumber)
	nd.Assert(SizeGroup(num, n) == n+refVarintLen(uint64(num)<<3|4), "SizeGroup")
	nd.Reach("done")
}

// refField is a reference scanner for one complete field, written from the wire
// grammar. It returns the length or -1. depth bounds group nesting.
func refField(b []byte, depth int) int {
	tag, n := refVarint(b)
	if n < 0 {
		return -1
	}
	num := tag >> 3
	if num < 1 || num > 0x7fffffff {
		return -1
	}
	m := refValue(num, tag&7, b[n:], depth)
	if m < 0 {
		return -1
	}
	return n + m
}

func refVarint(b []byte) (uint64, int) {
	var v uint64
	for i := 0; i < 10; i++ {
		if i >= len(b) {
			return 0, -1
		}
		c := b[i]
		if i == 9 && c > 1 {
			return 0, -1
		}
		v |= uint64(c&0x7f) << (7 * uint(i))
		if c < 0x80 {
			return v, i + 1
		}
	}
	return 0, -1
}

func refValue(num uint64, typ uint64, b []byte, depth int) int {
	switch typ {
	case 0:
		_, n := refVarint(b)
		return n
	case 5:
		if len(b) < 4 {
			return -1
		}
		return 4
	case 1:
		if len(b) < 8 {
			return -1
		}
		return 8
	case 2:
		m, n := refVarint(b)
		if n < 0 || m > uint64(len(b)-n) {
			return -1
		}
		return n + int(m)
	case 3:
		if depth < 0 {
			return -1
		}
		off := 0
		for {
			tag, n := refVarint(b[off:])
			if n < 0 {
				return -1
			}
			num2 := tag >> 3
			if num2 < 1 || num2 > 0x7fffffff {
				return -1
			}
			off += n
			if tag&7 == 4 {
				if num2 != num {
					return -1
				}
				return off
			}
			m := refValue(num2, tag&7, b[off:], depth-1)
			if m < 0 {
				return -1
			}
			off += m
		}
	}
	return -1
}

// refFields reports whether b is a sequence of complete fields with no group end.
func refFields(b []byte) bool {
	for len(b) > 0 {
		n := refField(b, 4)
		if n < 0 {
			return false
		}
		b = b[n:]
	}
	return true
}

// H_C01_group: a group body that is a complete field sequence round-trips.
//
//verif:props=C01 bounds=body<=4;num<=2^29-1
func H_C01_group() {
	num := Number(nd.Int32())
	nd.Assume(num >= 1 && num <= MaxValidNumber)
	body := nd.Bytes(4)
	nd.Assume(refFields(body))
	b := AppendGroup(nil, num, body)
	v, n := ConsumeGroup(num, b)
	nd.Reach("group")
	nd.Assert(n == len(b), "group n")
	nd.Assert(vBytesEq(v, body), "group body")
	nd.Assert(n == SizeGroup(num, len(body)), "SizeGroup")
}
