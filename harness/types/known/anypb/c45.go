//go:build verif

package anypb

import (
	"google.golang.org/protobuf/internal/zzverif/nd"
	"google.golang.org/protobuf/reflect/protoreflect"
)

func c45eq(a, b string) bool {
	if len(a) != len(b) {
		return false
	}
	ok := true
	for i := 0; i < len(a); i++ {
		ok = ok && a[i] == b[i]
	}
	return ok
}

// stub message whose descriptor has a symbolic full name
type c45md struct {
	protoreflect.MessageDescriptor
	name protoreflect.FullName
}

func (d c45md) FullName() protoreflect.FullName { return d.name }

type c45msg struct {
	protoreflect.Message
	name protoreflect.FullName
}

func (m c45msg) ProtoReflect() protoreflect.Message         { return m }
func (m c45msg) Descriptor() protoreflect.MessageDescriptor { return c45md{name: m.name} }

// H_C45_anyname: Any.MessageName is the part of the type URL after the last '/', when that is a
// valid full name, else empty.
//
//verif:props=C45 bounds=type-URLs<=5-bytes ifconv=1
func H_C45_anyname() {
	url := nd.String(5)
	x := &Any{TypeUrl: url}
	got := string(x.MessageName())
	start := 0
	for i := 0; i < len(url); i++ {
		if url[i] == '/' {
			start = i + 1
		}
	}
	suffix := url[start:]
	if protoreflect.FullName(suffix).IsValid() {
		nd.Reach("valid name")
		nd.Assert(c45eq(got, suffix), "MessageName is the URL's last path segment")
	} else {
		nd.Reach("invalid name")
		nd.Assert(len(got) == 0, "MessageName is empty for an invalid name")
	}
}

// H_C45_anyis: Any.MessageIs(m) holds exactly when the URL is m's full name or ends with
// "/" + m's full name. The message name is one of three concrete names; the URL is symbolic.
//
//verif:props=C45 bounds=type-URLs<=4-bytes;message-name-in{"a","ab","a.b"} ifconv=1
func H_C45_anyis() {
	url := nd.String(4)
	x := &Any{TypeUrl: url}
	name := []string{"a", "ab", "a.b"}[nd.Int(0, 2)]
	m := c45msg{name: protoreflect.FullName(name)}
	is := x.MessageIs(m)
	want := false
	if len(url) == len(name) {
		want = c45eq(url, name)
	} else if len(url) > len(name) {
		want = c45eq(url[len(url)-len(name):], name) && url[len(url)-len(name)-1] == '/'
	}
	nd.Reach("compared")
	nd.Assert(is == want, "MessageIs compares the URL's last path segment with the message's full name")
	var nilm c45msg
	_ = nilm
	nd.Assert(!x.MessageIs(nil), "MessageIs(nil) is false")
}
