//go:build verif

package timestamppb

import (
	"time"
	"unsafe"

	"google.golang.org/protobuf/internal/zzverif/nd"
)

// H_C43_tscheck: IsValid/CheckValid accept exactly years 1..9999 and nanos in [0,1e9).
//
//verif:props=C43 bounds=all-int64-seconds;all-int32-nanos
func H_C43_tscheck() {
	secs := nd.Int64()
	nanos := nd.Int32()
	x := &Timestamp{Seconds: secs, Nanos: nanos}
	const daysBefore1970 = 719162 // 0001-01-01 .. 1970-01-01
	const daysTo10000 = 2932897   // 1970-01-01 .. 10000-01-01
	valid := secs >= -daysBefore1970*86400 && secs < daysTo10000*86400 && nanos >= 0 && nanos < 1000000000
	nd.Assert(x.IsValid() == valid, "IsValid <=> documented range")
	nd.Assert((x.CheckValid() == nil) == valid, "CheckValid <=> documented range")
	var nilx *Timestamp
	nd.Assert(!nilx.IsValid() && nilx.CheckValid() != nil, "nil is invalid")
	if valid {
		nd.Reach("valid")
	} else {
		nd.Reach("invalid")
	}
}

type timeRepr struct {
	wall uint64
	ext  int64
	loc  *time.Location
}

// H_C43_tsroundtrip: New(t).AsTime() equals t for every time.Time representation:
// wall-clock-only form (wall = nsec, ext = seconds since year 1) and the monotonic form
// (33-bit seconds since 1885 packed in wall, ext = monotonic reading).
//
//verif:props=C43 bounds=all-time.Time-bit-patterns-with-nsec<1e9
func H_C43_tsroundtrip() {
	var t time.Time
	r := (*timeRepr)(unsafe.Pointer(&t))
	nsec := nd.Uint32()
	nd.Assume(nsec < 1000000000)
	if nd.Bool() {
		// monotonic form
		sec33 := nd.Uint64()
		nd.Assume(sec33 < 1<<33)
		r.wall = 1<<63 | sec33<<30 | uint64(nsec)
		r.ext = nd.Int64()
		nd.Reach("monotonic form")
	} else {
		r.wall = uint64(nsec)
		r.ext = nd.Int64()
		nd.Reach("wall form")
	}
	x := New(t)
	u := x.AsTime()
	nd.Assert(u.Equal(t), "New(t).AsTime().Equal(t)")
	nd.Assert(u.Unix() == t.Unix(), "same Unix seconds")
	nd.Assert(u.Nanosecond() == t.Nanosecond(), "same nanoseconds")
	nd.Assert(u.Location() == time.UTC, "AsTime is UTC")
	nd.Assert(x.Nanos >= 0 && x.Nanos < 1000000000, "nanos in range")
}
