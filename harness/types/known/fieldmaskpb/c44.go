//go:build verif

package fieldmaskpb

import (
	"google.golang.org/protobuf/internal/zzverif/nd"
)

func c44eq(a, b string) bool {
	if len(a) != len(b) {
		return false
	}
	ok := true
	for i := 0; i < len(a); i++ {
		ok = ok && a[i] == b[i]
	}
	return ok
}

// refCovers: path q is selected by mask entry m iff q == m or q starts with m + ".".
func refCovers1(q, m string) bool {
	if len(q) < len(m) {
		return false
	}
	ok := true
	for i := 0; i < len(m); i++ {
		ok = ok && q[i] == m[i]
	}
	if len(q) == len(m) {
		return ok
	}
	return ok && q[len(m)] == '.'
}

func refCovers(ms []string, q string) bool {
	r := false
	for _, m := range ms {
		c := refCovers1(q, m)
		r = r || c
	}
	return r
}

// refLess: lexicographic with '.' as the smallest symbol (then the remaining bytes in the
// cyclic order starting at '.').
func refLess(x, y string) bool {
	n := len(x)
	if len(y) < n {
		n = len(y)
	}
	for i := 0; i < n; i++ {
		if x[i] != y[i] {
			return byte(x[i]-'.') < byte(y[i]-'.')
		}
	}
	return len(x) < len(y)
}

func c44paths(n, maxLen int) []string {
	out := make([]string, n)
	for i := range out {
		out[i] = nd.String(maxLen)
	}
	return out
}

// H_C44_less: lessPath is a strict total order on strings and equals the documented order;
// hasPathPrefix equals its definition.
//
//verif:props=C44 bounds=three-strings<=3-bytes ifconv=1
func H_C44_less() {
	x, y, z := nd.String(3), nd.String(3), nd.String(3)
	lxy, lyx := lessPath(x, y), lessPath(y, x)
	nd.Assert(lxy == refLess(x, y), "lessPath equals the documented order")
	nd.Assert(!lessPath(x, x), "irreflexive")
	nd.Assert(!(lxy && lyx), "asymmetric")
	if !c44eq(x, y) {
		nd.Reach("distinct")
		nd.Assert(lxy || lyx, "total on distinct strings")
	}
	if lxy && lessPath(y, z) {
		nd.Reach("chain")
		nd.Assert(lessPath(x, z), "transitive")
	}
	nd.Assert(hasPathPrefix(x, y) == refCovers1(x, y), "hasPathPrefix equals its definition")
}

// H_C44_rangefields: rangeFields visits exactly the dot-separated components, in order.
//
//verif:props=C44 bounds=all-strings<=5-bytes ifconv=1
func H_C44_rangefields() {
	p := nd.String(5)
	var got []string
	done := rangeFields(p, func(f string) bool { got = append(got, f); return true })
	nd.Assert(done, "iteration completes")
	// reference split
	var want []string
	start := 0
	for i := 0; i < len(p); i++ {
		if p[i] == '.' {
			want = append(want, p[start:i])
			start = i + 1
		}
	}
	want = append(want, p[start:])
	nd.Assert(len(got) == len(want), "number of components")
	if len(got) == len(want) {
		nd.Reach("same count")
		for i := range got {
			nd.Assert(c44eq(got[i], want[i]), "component text")
		}
	}
	// early stop is honoured
	k := 0
	stopped := rangeFields(p, func(f string) bool { k++; return false })
	nd.Assert(!stopped && k == 1, "stops at the first false")
}

// H_C44_normalize: Normalize output is sorted, prefix-free, selects exactly the same paths as
// the input, and is a fixed point.
//
//verif:props=C44 bounds=<=3-paths-of<=2-bytes(quick)/3-bytes(thorough);probe<=4-bytes ifconv=1 maxsteps=4000000
func H_C44_normalize() {
	L := 2
	if nd.Thorough() {
		L = 3
	}
	n := nd.Int(0, 3)
	in := c44paths(n, L)
	orig := append([]string(nil), in...)
	q := nd.String(L + 1)
	m := &FieldMask{Paths: in}
	m.Normalize()
	out := m.Paths
	nd.Reach("normalized")
	nd.Assert(len(out) <= n, "no paths invented")
	for i := 0; i+1 < len(out); i++ {
		nd.Assert(lessPath(out[i], out[i+1]), "output strictly sorted")
		nd.Assert(!refCovers1(out[i+1], out[i]), "output is prefix-free")
	}
	nd.Assert(refCovers(out, q) == refCovers(orig, q), "same selected path set")
	// every output path is one of the input paths
	for _, o := range out {
		found := false
		for _, p := range orig {
			e := c44eq(o, p)
			found = found || e
		}
		nd.Assert(found, "output paths come from the input")
	}
	// idempotent
	again := normalizePaths(append([]string(nil), out...))
	nd.Assert(len(again) == len(out), "idempotent (length)")
	if len(again) == len(out) {
		for i := range out {
			nd.Assert(c44eq(again[i], out[i]), "idempotent (content)")
		}
	}
}

// H_C44_union_intersect: Union selects a path iff some operand does, Intersect iff all do.
//
//verif:props=C44 bounds=two-masks-of<=2-paths-of<=2-bytes;probe<=3-bytes(quick)/paths<=3-bytes;probe<=4(thorough) ifconv=1 maxsteps=6000000 deadline=900
func H_C44_union_intersect() {
	L := 2
	if nd.Thorough() {
		L = 3
	}
	nx, ny := nd.Int(0, 2), nd.Int(0, 2)
	xs, ys := c44paths(nx, L), c44paths(ny, L)
	q := nd.String(L + 1)
	mx := &FieldMask{Paths: append([]string(nil), xs...)}
	my := &FieldMask{Paths: append([]string(nil), ys...)}
	u := Union(mx, my)
	nd.Reach("union")
	nd.Assert(refCovers(u.Paths, q) == (refCovers(xs, q) || refCovers(ys, q)), "Union selects q iff some operand selects q")
	i := Intersect(mx, my)
	nd.Reach("intersect")
	nd.Assert(refCovers(i.Paths, q) == (refCovers(xs, q) && refCovers(ys, q)), "Intersect selects q iff every operand selects q")
	for k := 0; k+1 < len(i.Paths); k++ {
		nd.Assert(lessPath(i.Paths[k], i.Paths[k+1]), "Intersect output sorted")
	}
	// operands are not modified
	for k := range xs {
		nd.Assert(c44eq(mx.Paths[k], xs[k]), "first operand unchanged")
	}
	for k := range ys {
		nd.Assert(c44eq(my.Paths[k], ys[k]), "second operand unchanged")
	}
}
