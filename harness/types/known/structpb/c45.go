//go:build verif

package structpb

import (
	"math"
	"unicode/utf8"

	"google.golang.org/protobuf/internal/zzverif/nd"
)

func c45strEq(a, b string) bool {
	if len(a) != len(b) {
		return false
	}
	ok := true
	for i := 0; i < len(a); i++ {
		ok = ok && a[i] == b[i]
	}
	return ok
}

// c45scalar builds one JSON-like scalar of a symbolic kind and states what AsInterface must return.
func c45scalar(kind int) (in any, wantNil bool, wantBool *bool, wantNum *float64, wantStr *string, wantErr bool) {
	switch kind {
	case 0:
		return nil, true, nil, nil, nil, false
	case 1:
		b := nd.Bool()
		return b, false, &b, nil, nil, false
	case 2:
		x := nd.Int32()
		f := float64(x)
		return x, false, nil, &f, nil, false
	case 3:
		x := nd.Uint32()
		f := float64(x)
		return x, false, nil, &f, nil, false
	case 4:
		x := nd.Uint16()
		f := float64(x)
		return int(x), false, nil, &f, nil, false
	case 7:
		x := nd.Uint64()
		f := float64(x)
		return x, false, nil, &f, nil, false
	case 8:
		x := nd.Int64()
		f := float64(x)
		return x, false, nil, &f, nil, false
	case 5:
		f := nd.Float64()
		nd.Assume(!math.IsNaN(f) && !math.IsInf(f, 0))
		return f, false, nil, &f, nil, false
	default:
		s := nd.String(2)
		if !utf8.ValidString(s) {
			return s, false, nil, nil, nil, true
		}
		return s, false, nil, nil, &s, false
	}
}

func c45check(got any, wantNil bool, wantBool *bool, wantNum *float64, wantStr *string) {
	switch {
	case wantNil:
		nd.Assert(got == nil, "null round trips")
	case wantBool != nil:
		b, ok := got.(bool)
		nd.Assert(ok && b == *wantBool, "bool round trips")
	case wantNum != nil:
		f, ok := got.(float64)
		nd.Assert(ok, "numbers come back as float64")
		if ok {
			nd.Assert(math.Float64bits(f) == math.Float64bits(*wantNum), "number round trips exactly (integers converted to float64)")
		}
	case wantStr != nil:
		s, ok := got.(string)
		nd.Assert(ok && c45strEq(s, *wantStr), "string round trips")
	}
}

// H_C45_scalar: structpb.NewValue(v).AsInterface() returns v for every JSON-like scalar (null,
// bool, int32/uint32/int -> float64, finite float64, valid UTF-8 string); invalid UTF-8 is refused.
//
//verif:props=C45 bounds=scalars:null,bool,all-int32,all-uint32,all-int64,all-uint64,int<65536,finite-float64,strings<=2-bytes timeout=60000
func H_C45_scalar() {
	kind := nd.Int(0, 8)
	in, wantNil, wantBool, wantNum, wantStr, wantErr := c45scalar(kind)
	v, err := NewValue(in)
	if wantErr {
		nd.Reach("invalid UTF-8")
		nd.Assert(err != nil, "invalid UTF-8 string is refused")
		return
	}
	nd.Reach("converted")
	nd.Assert(err == nil && v != nil, "JSON-like scalar converts")
	if err == nil && v != nil {
		c45check(v.AsInterface(), wantNil, wantBool, wantNum, wantStr)
	}
}

// H_C45_list: NewList / AsSlice on lists of two scalars keep length, order and values.
//
//verif:props=C45 bounds=lists-of-2-scalars(bool/int32/string<=2)
func H_C45_list() {
	k1, k2 := nd.Int(1, 2), nd.Int(1, 2)
	if nd.Bool() {
		k2 = 6
	}
	in1, n1, b1, f1, s1, e1 := c45scalar(k1)
	in2, n2, b2, f2, s2, e2 := c45scalar(k2)
	l, err := NewList([]any{in1, in2})
	if e1 || e2 {
		nd.Reach("invalid element")
		nd.Assert(err != nil, "a list with an unconvertible element is refused")
		return
	}
	nd.Reach("list converted")
	nd.Assert(err == nil, "list converts")
	if err != nil {
		return
	}
	out := l.AsSlice()
	nd.Assert(len(out) == 2, "length kept")
	if len(out) == 2 {
		c45check(out[0], n1, b1, f1, s1)
		c45check(out[1], n2, b2, f2, s2)
	}
	v, verr := NewValue([]any{in1, in2})
	nd.Assert(verr == nil, "NewValue accepts a list")
	if verr == nil {
		back, ok := v.AsInterface().([]any)
		nd.Assert(ok && len(back) == 2, "list value comes back as []any of the same length")
	}
}
