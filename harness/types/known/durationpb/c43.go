//go:build verif

package durationpb

import (
	"time"

	"google.golang.org/protobuf/internal/zzverif/nd"
)

// H_C43_asduration: AsDuration == exact value clamped to int64, for every (int64, int32).
// Mixed-sign pairs (invalid per CheckValid) are asserted under their own label.
//
//verif:props=C43 solver=cvc5-int bounds=all-int64-seconds;all-int32-nanos timeout=60000
func H_C43_asduration() {
	secs := nd.Int64()
	nanos := nd.Int32()
	x := &Duration{Seconds: secs, Nanos: nanos}
	got := int64(x.AsDuration())
	want := nd.MulAddClamp64(secs, 1000000000, int64(nanos)) // exact 128-bit spec
	mixed := (secs < 0 && nanos > 0) || (secs > 0 && nanos < 0)
	// secs*1e9 alone leaves the int64 range exactly when |secs| > 9223372036
	prodOverflows := secs > 9223372036 || secs < -9223372036
	if mixed && prodOverflows {
		// known finding (see known_findings.json): the sum can be representable although secs*1e9 is not
		nd.Reach("mixed signs, seconds*1e9 overflows")
		nd.Assert(got == want, "AsDuration exact clamp, mixed-sign seconds/nanos with seconds*1e9 overflowing")
	} else {
		nd.Reach("all other inputs")
		nd.Assert(got == want, "AsDuration exact clamp")
	}
}

// H_C43_newduration: New(d).AsDuration() == d and New(d) is valid, for every time.Duration.
//
//verif:props=C43 solver=cvc5-int bounds=all-int64-durations timeout=60000
func H_C43_newduration() {
	d := time.Duration(nd.Int64())
	x := New(d)
	nd.Assert(x.AsDuration() == d, "New(d).AsDuration() == d")
	nd.Assert(x.IsValid(), "New(d) is valid")
	nd.Assert(x.CheckValid() == nil, "New(d) passes CheckValid")
	nd.Assert(x.Nanos > -1000000000 && x.Nanos < 1000000000, "nanos normalised")
	nd.Reach("done")
}

// H_C43_durcheck: IsValid/CheckValid accept exactly the documented range.
//
//verif:props=C43 bounds=all-int64-seconds;all-int32-nanos
func H_C43_durcheck() {
	secs := nd.Int64()
	nanos := nd.Int32()
	x := &Duration{Seconds: secs, Nanos: nanos}
	const tenThousandYears = 10000 * 36525 * 864 // 10000 * 365.25 days * 86400 s
	valid := secs >= -tenThousandYears && secs <= tenThousandYears &&
		nanos > -1000000000 && nanos < 1000000000 &&
		!(secs > 0 && nanos < 0) && !(secs < 0 && nanos > 0)
	nd.Assert(x.IsValid() == valid, "IsValid <=> documented range")
	nd.Assert((x.CheckValid() == nil) == valid, "CheckValid <=> documented range")
	var nilx *Duration
	nd.Assert(!nilx.IsValid() && nilx.CheckValid() != nil, "nil is invalid")
	if valid {
		nd.Reach("valid")
	} else {
		nd.Reach("invalid")
	}
}
