//go:build verif

package strs

import (
	"go/token"

	"google.golang.org/protobuf/internal/zzverif/nd"
)

func c42lower(c byte) bool  { return 'a' <= c && c <= 'z' }
func c42upper(c byte) bool  { return 'A' <= c && c <= 'Z' }
func c42digit(c byte) bool  { return '0' <= c && c <= '9' }
func c42letter(c byte) bool { return c == '_' || c42lower(c) || c42upper(c) }

// c42validFull: ident ("." ident)* over ASCII, the protobuf (full) identifier grammar.
func c42validFull(s string) bool {
	if len(s) == 0 {
		return false
	}
	ok := true
	startOfIdent := true
	for i := 0; i < len(s); i++ {
		c := s[i]
		if startOfIdent {
			ok = ok && c42letter(c)
			startOfIdent = false
		} else if c == '.' {
			startOfIdent = true
		} else {
			l := c42letter(c) || c42digit(c)
			ok = ok && l
		}
	}
	return ok && !startOfIdent
}

func c42eq(a, b string) bool {
	if len(a) != len(b) {
		return false
	}
	ok := true
	for i := 0; i < len(a); i++ {
		ok = ok && a[i] == b[i]
	}
	return ok
}

// H_C42_gocamel: for every valid protobuf (full) identifier GoCamelCase yields an exported
// ASCII Go identifier: first byte an upper-case letter, then letters, digits and '_' only.
//
//verif:props=C42 bounds=all-strings<=5(quick)/6(thorough)-that-are-valid-proto-identifiers ifconv=1
func H_C42_gocamel() {
	N := 5
	if nd.Thorough() {
		N = 6
	}
	s := nd.String(N)
	nd.Assume(c42validFull(s))
	nd.Reach("valid identifier")
	g := GoCamelCase(s)
	nd.Assert(len(g) > 0, "non-empty")
	if len(g) > 0 {
		nd.Assert(c42upper(g[0]), "starts with an upper-case ASCII letter (exported)")
		for i := 0; i < len(g); i++ {
			ok := c42letter(g[i]) || c42digit(g[i])
			nd.Assert(ok, "only letters, digits and underscore")
		}
	}
}

// c42maskable: the domain on which protojson accepts a FieldMask path component: no upper-case
// letter and every '_' followed by a lower-case letter.
func c42maskable(s string) bool {
	ok := true
	for i := 0; i < len(s); i++ {
		c := s[i]
		u := !c42upper(c)
		ok = ok && u
		if c == '_' {
			f := i+1 < len(s) && c42lower(s[i+1])
			ok = ok && f
		}
	}
	return ok
}

// H_C42_jsoncase: JSONSnakeCase(JSONCamelCase(s)) == s exactly on the lowerCamel-convertible
// domain (which is the reversibility test protojson applies to FieldMask paths).
//
//verif:props=C42,C23 bounds=all-strings<=5(quick)/6(thorough)-over-identifier-characters ifconv=1
func H_C42_jsoncase() {
	N := 5
	if nd.Thorough() {
		N = 6
	}
	s := nd.String(N)
	for i := 0; i < len(s); i++ {
		nd.Assume(c42letter(s[i]) || c42digit(s[i]) || s[i] == '.')
	}
	cc := JSONCamelCase(s)
	back := JSONSnakeCase(cc)
	rev := c42eq(back, s)
	if c42maskable(s) {
		nd.Reach("convertible")
		nd.Assert(rev, "round trip on the lowerCamel-convertible domain")
	} else {
		nd.Reach("not convertible")
		nd.Assert(!rev, "not reversible outside the convertible domain (so protojson rejects the path)")
	}
	for i := 0; i < len(cc); i++ {
		nd.Assert(cc[i] != '_' || !c42maskable(s), "camel form of a convertible name has no underscore")
	}
}

// H_C42_enumnames: TrimEnumPrefix never returns the empty string for a non-empty name and
// returns either the input or a suffix of it; EnumValueName/MapEntryName keep ASCII identifiers ASCII.
//
//verif:props=C42 bounds=name<=4-bytes;prefix<=3-bytes;identifier-characters ifconv=1
func H_C42_enumnames() {
	s := nd.String(4)
	p := nd.String(3)
	for i := 0; i < len(s); i++ {
		nd.Assume(c42letter(s[i]) || c42digit(s[i]))
	}
	for i := 0; i < len(p); i++ {
		nd.Assume(c42lower(p[i]) || c42digit(p[i]) || p[i] == '_')
	}
	nd.Assume(len(s) > 0)
	t := TrimEnumPrefix(s, p)
	nd.Reach("trimmed")
	nd.Assert(len(t) > 0, "never empty")
	nd.Assert(len(t) <= len(s), "never longer")
	nd.Assert(c42eq(t, s[len(s)-len(t):]), "result is a suffix of the input")
	if len(t) < len(s) {
		nd.Reach("prefix removed")
		nd.Assert(t[0] != '_', "no leading underscore after trimming")
	}
	e := MapEntryName(s)
	nd.Assert(len(e) >= 5 && c42eq(e[len(e)-5:], "Entry"), "MapEntryName ends with Entry")
}

// H_C42_gosanitized: GoSanitized maps every string to a valid, non-keyword Go identifier. Inputs:
// an optional ASCII letter followed by one arbitrary Basic-Multilingual-Plane rune (every Unicode
// category, via the real unicode tables); and the empty string.
//
//verif:props=C42 bounds=optional-letter+one-arbitrary-BMP-rune;empty-string maxsteps=8000000 deadline=900 timeout=30000
func H_C42_gosanitized() {
	var s string
	if nd.Bool() {
		s = "k"
	}
	r := rune(nd.Uint16())
	nd.Assume(r < 0xd800 || r > 0xdfff)
	s += string(r)
	g := GoSanitized(s)
	nd.Reach("sanitized")
	nd.Assert(token.IsIdentifier(g), "GoSanitized yields a valid Go identifier that is not a keyword")
	nd.Assert(len(GoSanitized("")) > 0 && token.IsIdentifier(GoSanitized("")), "the empty string is sanitized to an identifier")
}
