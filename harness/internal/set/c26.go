//go:build verif

package set

import (
	"math/bits"

	"google.golang.org/protobuf/internal/zzverif/nd"
)

// H_C26_set: one step of the duplicate-detection set used by the JSON and text decoders
// (seen field numbers / oneofs), from an arbitrary state: Set adds exactly n, Clear removes
// exactly n, Has is membership, Len counts members. Covers the 63/64 boundary between the
// bitmap and the map.
//
//verif:props=C26 bounds=arbitrary-64-bit-bitmap;<=2-arbitrary-large-members;all-uint64-n,m
func H_C26_set() {
	var s Ints
	s.lo = int64s(nd.Uint64())
	k := nd.Int(0, 2)
	var big [2]uint64
	for i := 0; i < k; i++ {
		big[i] = nd.Uint64()
		nd.Assume(big[i] >= 64)
		if i == 1 {
			nd.Assume(big[1] != big[0])
		}
		s.Set(big[i])
	}
	n, m := nd.Uint64(), nd.Uint64()
	before := s.Has(m)
	lenBefore := s.Len()
	hadN := s.Has(n)
	loBefore := uint64(s.lo)
	nd.Assert(lenBefore == bits.OnesCount64(loBefore)+k, "Len counts bitmap members plus large members")
	// reference membership of m before the step
	ref := false
	if m < 64 {
		ref = uint64(s.lo)>>m&1 == 1
	} else {
		for i := 0; i < k; i++ {
			e := big[i] == m
			ref = ref || e
		}
	}
	nd.Assert(before == ref, "Has is membership")
	if nd.Bool() {
		s.Set(n)
		nd.Reach("set")
		nd.Assert(s.Has(n), "Set(n) makes n a member")
		nd.Assert(s.Has(m) == (before || m == n), "Set(n) adds exactly n")
		if n < 64 {
			// (Len of the bitmap part is its popcount, asserted above; the word itself is checked here:
			// popcount differences are out of reach of the solvers within the time limit)
			nd.Assert(uint64(s.lo) == loBefore|1<<n, "Set changes exactly bit n of the bitmap")
		} else if hadN {
			nd.Assert(s.Len() == lenBefore, "Set of a member keeps Len")
		} else {
			nd.Assert(s.Len() == lenBefore+1, "Set of a new element increments Len")
		}
	} else {
		s.Clear(n)
		nd.Reach("clear")
		nd.Assert(!s.Has(n), "Clear(n) removes n")
		nd.Assert(s.Has(m) == (before && m != n), "Clear(n) removes exactly n")
		if n < 64 {
			nd.Assert(uint64(s.lo) == loBefore&^(1<<n), "Clear changes exactly bit n of the bitmap")
		} else if hadN {
			nd.Assert(s.Len() == lenBefore-1, "Clear of a member decrements Len")
		} else {
			nd.Assert(s.Len() == lenBefore, "Clear of a non-member keeps Len")
		}
	}
}
