//go:build verif

package filedesc

import (
	"google.golang.org/protobuf/internal/zzverif/nd"
	"google.golang.org/protobuf/reflect/protoreflect"
)

// H_C11_presence_rules: the descriptor-level presence discipline, for a field with symbolic
// attributes (cardinality, kind, resolved features, oneof membership, message type): repeated
// fields never have presence; otherwise a field has presence iff it is explicit-presence by its
// resolved features (proto2 optional/required, proto3 optional, editions EXPLICIT/LEGACY_REQUIRED),
// or is a message/group field, or is a oneof member. Packedness: only repeated scalar fields of
// numeric/bool/enum kinds can be packed, and then iff the resolved feature says so.
//
//verif:props=C11 bounds=one-field-with-symbolic-cardinality(3),kind(1..18),features,oneof-membership,message-type
func H_C11_presence_rules() {
	fd := &Field{}
	card := protoreflect.Cardinality(nd.Int(1, 3))
	kind := protoreflect.Kind(nd.Int(1, 18))
	fd.L1.Cardinality = card
	fd.L1.Kind = kind
	fd.L1.EditionFeatures.IsFieldPresence = nd.Bool()
	fd.L1.EditionFeatures.IsPacked = nd.Bool()
	inOneof := nd.Bool()
	if inOneof {
		fd.L1.ContainingOneof = &Oneof{}
	}
	isMsg := kind == protoreflect.MessageKind || kind == protoreflect.GroupKind
	if isMsg {
		fd.L1.Message = &Message{}
	}
	nd.Reach("field")
	wantPresence := card != protoreflect.Repeated && (fd.L1.EditionFeatures.IsFieldPresence || isMsg || inOneof)
	nd.Assert(fd.HasPresence() == wantPresence, "HasPresence follows the presence discipline")
	scalarPackable := !isMsg && kind != protoreflect.StringKind && kind != protoreflect.BytesKind
	wantPacked := card == protoreflect.Repeated && scalarPackable && fd.L1.EditionFeatures.IsPacked
	nd.Assert(fd.IsPacked() == wantPacked, "IsPacked only for repeated packable scalars, by the resolved feature")
	nd.Assert(fd.Cardinality() == card && fd.Kind() == kind, "accessors return the stored attributes")
}
