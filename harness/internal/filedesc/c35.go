//go:build verif

package filedesc

import (
	"google.golang.org/protobuf/internal/zzverif/nd"
	"google.golang.org/protobuf/reflect/protoreflect"
)

const (
	c35minNum = 1
	c35maxNum = 1<<29 - 1
)

func c35validNum(n int32, ms bool) bool { return n >= c35minNum && (n <= c35maxNum || ms) }

// field ranges are [start, end) with the exclusive end stored in an int32, so "to max" of a
// MessageSet (2^31-1 inclusive) is stored as the wrapped value MinInt32; the reference therefore
// works on inclusive ends computed with the same wrap-around.
func c35incl(r [2]protoreflect.FieldNumber) (int32, int32) { return int32(r[0]), int32(r[1]) - 1 }

func c35fieldRanges(n int) [][2]protoreflect.FieldNumber {
	out := make([][2]protoreflect.FieldNumber, n)
	for i := range out {
		out[i] = [2]protoreflect.FieldNumber{protoreflect.FieldNumber(nd.Int32()), protoreflect.FieldNumber(nd.Int32())}
	}
	return out
}

func c35refValidField(rs [][2]protoreflect.FieldNumber, ms bool) bool {
	ok := true
	for i := range rs {
		s, e := c35incl(rs[i])
		ok = ok && c35validNum(s, ms)
		ok = ok && c35validNum(e, ms)
		ok = ok && s <= e
		for j := 0; j < i; j++ {
			s2, e2 := c35incl(rs[j])
			disjoint := e < s2 || e2 < s
			ok = ok && disjoint
		}
	}
	return ok
}

func c35refHasField(rs [][2]protoreflect.FieldNumber, n int32) bool {
	r := false
	for i := range rs {
		s, e := c35incl(rs[i])
		in := s <= n && n <= e
		r = r || in
	}
	return r
}

// H_C35_fieldranges: FieldRanges.CheckValid accepts exactly the lists whose bounds are valid
// field numbers, non-empty and pairwise disjoint, independent of list order (C35); on accepted
// lists Has(n) is membership in the listed ranges (C36).
//
//verif:props=C35,C36 bounds=<=3-ranges(quick)/4(thorough);all-int32-bounds;all-int32-probes ifconv=1
func H_C35_fieldranges() {
	max := 3
	if nd.Thorough() {
		max = 4
	}
	n := nd.Int(0, max)
	rs := c35fieldRanges(n)
	ms := nd.Bool()
	p := &FieldRanges{List: rs}
	err := p.CheckValid(ms)
	want := c35refValidField(rs, ms)
	nd.Assert((err == nil) == want, "CheckValid accepts exactly the valid range lists")
	nd.Assert(p.Len() == n, "Len")
	if err == nil {
		nd.Reach("valid")
		q := nd.Int32()
		nd.Assert(p.Has(protoreflect.FieldNumber(q)) == c35refHasField(rs, q), "Has is membership in the listed ranges")
		for i := 0; i < n; i++ {
			g := p.Get(i)
			nd.Assert(g[0] == rs[i][0] && g[1] == rs[i][1], "Get(i) is the i-th listed range")
		}
	} else {
		nd.Reach("invalid")
	}
}

// H_C35_overlap: CheckOverlap on two valid lists reports an error iff some pair overlaps.
//
//verif:props=C35,C36 bounds=two-lists-of<=2-ranges;all-int32-bounds ifconv=1
func H_C35_overlap() {
	np, nq := nd.Int(0, 2), nd.Int(0, 2)
	ps, qs := c35fieldRanges(np), c35fieldRanges(nq)
	ms := nd.Bool()
	nd.Assume(c35refValidField(ps, ms))
	nd.Assume(c35refValidField(qs, ms))
	p, q := &FieldRanges{List: ps}, &FieldRanges{List: qs}
	nd.Reach("two valid lists")
	err := p.CheckOverlap(q)
	over := false
	for i := range ps {
		s, e := c35incl(ps[i])
		for j := range qs {
			s2, e2 := c35incl(qs[j])
			o := !(e < s2 || e2 < s)
			over = over || o
		}
	}
	nd.Assert((err != nil) == over, "CheckOverlap reports exactly the overlapping lists")
}

func c35enumRanges(n int) [][2]protoreflect.EnumNumber {
	out := make([][2]protoreflect.EnumNumber, n)
	for i := range out {
		out[i] = [2]protoreflect.EnumNumber{protoreflect.EnumNumber(nd.Int32()), protoreflect.EnumNumber(nd.Int32())}
	}
	return out
}

// H_C35_enumranges: EnumRanges (inclusive ends): CheckValid and Has.
//
//verif:props=C35,C36 bounds=<=3-ranges(quick)/4(thorough);all-int32-bounds;all-int32-probes ifconv=1
func H_C35_enumranges() {
	max := 3
	if nd.Thorough() {
		max = 4
	}
	n := nd.Int(0, max)
	rs := c35enumRanges(n)
	p := &EnumRanges{List: rs}
	err := p.CheckValid()
	ok := true
	for i := range rs {
		ok = ok && rs[i][0] <= rs[i][1]
		for j := 0; j < i; j++ {
			disjoint := rs[i][1] < rs[j][0] || rs[j][1] < rs[i][0]
			ok = ok && disjoint
		}
	}
	nd.Assert((err == nil) == ok, "CheckValid accepts exactly the valid enum range lists")
	if err == nil {
		nd.Reach("valid")
		q := protoreflect.EnumNumber(nd.Int32())
		has := false
		for i := range rs {
			in := rs[i][0] <= q && q <= rs[i][1]
			has = has || in
		}
		nd.Assert(p.Has(q) == has, "Has is membership in the listed ranges")
	} else {
		nd.Reach("invalid")
	}
}

func c35nameEq(a, b protoreflect.Name) bool {
	if len(a) != len(b) {
		return false
	}
	ok := true
	for i := 0; i < len(a); i++ {
		ok = ok && a[i] == b[i]
	}
	return ok
}

// H_C35_names: Names.CheckValid reports exactly duplicate names; Has is membership;
// FieldNumbers.Has is membership.
//
//verif:props=C35,C36 bounds=<=3-names-of<=2-bytes;<=3-numbers ifconv=1
func H_C35_names() {
	n := nd.Int(0, 3)
	ns := make([]protoreflect.Name, n)
	for i := range ns {
		ns[i] = protoreflect.Name(nd.String(2))
	}
	p := &Names{List: ns}
	err := p.CheckValid()
	dup := false
	for i := range ns {
		for j := 0; j < i; j++ {
			e := c35nameEq(ns[i], ns[j])
			dup = dup || e
		}
	}
	nd.Assert((err != nil) == dup, "CheckValid reports exactly the lists with a duplicate name")
	q := protoreflect.Name(nd.String(2))
	has := false
	for i := range ns {
		e := c35nameEq(ns[i], q)
		has = has || e
	}
	nd.Assert(p.Has(q) == has, "Names.Has is membership")
	nd.Reach("names")

	m := nd.Int(0, 3)
	nums := make([]protoreflect.FieldNumber, m)
	for i := range nums {
		nums[i] = protoreflect.FieldNumber(nd.Int32())
	}
	fn := &FieldNumbers{List: nums}
	qn := protoreflect.FieldNumber(nd.Int32())
	hasN := false
	for i := range nums {
		hasN = hasN || nums[i] == qn
	}
	nd.Assert(fn.Has(qn) == hasN, "FieldNumbers.Has is membership")
}
