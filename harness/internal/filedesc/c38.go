//go:build verif

package filedesc

import (
	"google.golang.org/protobuf/encoding/protowire"
	"google.golang.org/protobuf/internal/strs"
	"google.golang.org/protobuf/internal/zzverif/nd"
	"google.golang.org/protobuf/reflect/protoreflect"
)

func c38parent() EditionFeatures {
	return EditionFeatures{
		IsFieldPresence: nd.Bool(), IsLegacyRequired: nd.Bool(), IsOpenEnum: nd.Bool(), IsPacked: nd.Bool(),
		IsUTF8Validated: nd.Bool(), IsDelimitedEncoded: nd.Bool(), IsJSONCompliant: nd.Bool(),
		GenerateLegacyUnmarshalJSON: nd.Bool(), APILevel: int(nd.Uint16()), StripEnumPrefix: int(nd.Uint16()),
	}
}

// H_C38_featureset: resolving a FeatureSet against its parent: every resolved flag equals the
// last explicit setting in the options (enum numbers from descriptor.proto written out as
// literals) or else the parent's value; settings of other features never disturb a flag.
//
//verif:props=C38 bounds=parent-features-arbitrary;<=3-explicit-settings(feature-number-1..6,enum-value-0..3);optional-Go-features-block
func H_C38_featureset() {
	parent := c38parent()
	want := parent
	n := nd.Int(0, 3)
	var b []byte
	for i := 0; i < n; i++ {
		num := nd.Int(1, 6)
		v := nd.Byte()
		nd.Assume(v <= 3)
		b = protowire.AppendTag(b, protowire.Number(num), protowire.VarintType)
		b = protowire.AppendVarint(b, uint64(v))
		switch num {
		case 1: // field_presence: EXPLICIT=1 IMPLICIT=2 LEGACY_REQUIRED=3
			want.IsFieldPresence = v == 1 || v == 3
			want.IsLegacyRequired = v == 3
		case 2: // enum_type: OPEN=1 CLOSED=2
			want.IsOpenEnum = v == 1
		case 3: // repeated_field_encoding: PACKED=1 EXPANDED=2
			want.IsPacked = v == 1
		case 4: // utf8_validation: VERIFY=2 NONE=3
			want.IsUTF8Validated = v == 2
		case 5: // message_encoding: LENGTH_PREFIXED=1 DELIMITED=2
			want.IsDelimitedEncoded = v == 2
		case 6: // json_format: ALLOW=1 LEGACY_BEST_EFFORT=2
			want.IsJSONCompliant = v == 1
		}
	}
	if nd.Bool() {
		// features.(pb.go) extension 1002: legacy_unmarshal_json_enum=1, api_level=2, strip_enum_prefix=3
		var g []byte
		if nd.Bool() {
			x := nd.Bool()
			g = protowire.AppendTag(g, 1, protowire.VarintType)
			g = protowire.AppendVarint(g, protowire.EncodeBool(x))
			want.GenerateLegacyUnmarshalJSON = x
		}
		if nd.Bool() {
			x := nd.Byte()
			g = protowire.AppendTag(g, 2, protowire.VarintType)
			g = protowire.AppendVarint(g, uint64(x))
			want.APILevel = int(x)
		}
		b = protowire.AppendTag(b, 1002, protowire.BytesType)
		b = protowire.AppendBytes(b, g)
		nd.Reach("go features")
	}
	got := unmarshalFeatureSet(b, parent)
	nd.Reach("resolved")
	nd.Assert(got.IsFieldPresence == want.IsFieldPresence, "field presence")
	nd.Assert(got.IsLegacyRequired == want.IsLegacyRequired, "legacy required")
	nd.Assert(got.IsOpenEnum == want.IsOpenEnum, "enum openness")
	nd.Assert(got.IsPacked == want.IsPacked, "repeated field encoding")
	nd.Assert(got.IsUTF8Validated == want.IsUTF8Validated, "utf8 validation")
	nd.Assert(got.IsDelimitedEncoded == want.IsDelimitedEncoded, "message encoding")
	nd.Assert(got.IsJSONCompliant == want.IsJSONCompliant, "json format")
	nd.Assert(got.GenerateLegacyUnmarshalJSON == want.GenerateLegacyUnmarshalJSON, "go: legacy unmarshal json enum")
	nd.Assert(got.APILevel == want.APILevel, "go: api level")
	nd.Assert(got.StripEnumPrefix == want.StripEnumPrefix, "go: strip enum prefix inherited")
}

// H_C38_defaults: getFeaturesFor returns the defaults of the greatest known edition not above
// the requested one, for an arbitrary sorted defaults table.
//
//verif:props=C38 bounds=sorted-defaults-table-of-1..3-editions;any-requested-edition
func H_C38_defaults() {
	saveK, saveC := defaultsKeys, defaultsCache
	defer func() { defaultsKeys, defaultsCache = saveK, saveC }()
	n := nd.Int(1, 3)
	keys := make([]Edition, n)
	cache := map[Edition]EditionFeatures{}
	for i := range keys {
		keys[i] = Edition(nd.Int32())
		nd.Assume(keys[i] > EditionUnknown)
		if i > 0 {
			nd.Assume(keys[i-1] < keys[i])
		}
		cache[keys[i]] = EditionFeatures{APILevel: i + 1}
	}
	defaultsKeys, defaultsCache = keys, cache
	ed := Edition(nd.Int32())
	nd.Assume(ed >= keys[0])
	got := getFeaturesFor(ed)
	nd.Reach("looked up")
	want := 0
	for i := range keys {
		if keys[i] <= ed {
			want = i + 1
		}
	}
	nd.Assert(got.APILevel == want, "defaults of the greatest edition not above the requested one")
}

// H_C38_enum_features: an enum declared in an editions file resolves enum_type (openness) to its
// own explicit `option features.enum_type` when present, else to the parent's value, when the
// descriptor is initialised from a raw descriptor (the path generated code uses).
//
//verif:props=C38 bounds=EnumDescriptorProto{name,optional-options{features{enum_type-0..3}},optional-value};parent-features-arbitrary
func H_C38_enum_features() {
	pf := &File{}
	pf.L1.Syntax = protoreflect.Editions
	pf.L1.Package = "p"
	pf.L1.EditionFeatures = c38parent()
	var b []byte
	b = protowire.AppendTag(b, 1, protowire.BytesType) // name
	b = protowire.AppendBytes(b, []byte("E"))
	want := pf.L1.EditionFeatures.IsOpenEnum
	if nd.Bool() {
		v := nd.Byte()
		nd.Assume(v <= 3)
		var fs []byte
		fs = protowire.AppendTag(fs, 2, protowire.VarintType) // FeatureSet.enum_type
		fs = protowire.AppendVarint(fs, uint64(v))
		var opts []byte
		opts = protowire.AppendTag(opts, 7, protowire.BytesType) // EnumOptions.features
		opts = protowire.AppendBytes(opts, fs)
		b = protowire.AppendTag(b, 3, protowire.BytesType) // EnumDescriptorProto.options
		b = protowire.AppendBytes(b, opts)
		want = v == 1 // OPEN = 1, CLOSED = 2
		nd.Reach("explicit enum_type")
	} else {
		nd.Reach("inherited")
	}
	var sb strs.Builder
	ed := &Enum{}
	ed.unmarshalSeed(b, &sb, pf, pf, 0)
	nd.Assert(ed.IsClosed() == !want, "enum openness is the enum's own explicit setting, else the parent's")
	nd.Assert(ed.FullName() == "p.E", "full name")
}
