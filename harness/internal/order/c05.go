//go:build verif

package order

import (
	"google.golang.org/protobuf/internal/zzverif/nd"
	"google.golang.org/protobuf/reflect/protoreflect"
)

// stub descriptors with symbolic attributes
type c05oneof struct {
	protoreflect.OneofDescriptor
	idx       int
	synthetic bool
}

func (o *c05oneof) Index() int        { return o.idx }
func (o *c05oneof) IsSynthetic() bool { return o.synthetic }

type c05field struct {
	protoreflect.FieldDescriptor
	num   protoreflect.FieldNumber
	idx   int
	ext   bool
	oneof *c05oneof
	name  protoreflect.FullName
}

func (f *c05field) Number() protoreflect.FieldNumber { return f.num }
func (f *c05field) Index() int                       { return f.idx }
func (f *c05field) IsExtension() bool                { return f.ext }
func (f *c05field) FullName() protoreflect.FullName  { return f.name }
func (f *c05field) ContainingOneof() protoreflect.OneofDescriptor {
	if f.oneof == nil {
		return nil
	}
	return f.oneof
}

// c05fields builds three fields of one message with symbolic attributes that are consistent with
// a real message: distinct numbers, distinct declaration indexes among non-extensions, distinct
// full names among extensions, and two oneofs (distinct declaration indexes) they may belong to.
func c05fields() [3]*c05field {
	o1 := &c05oneof{idx: 0, synthetic: nd.Bool()}
	o2 := &c05oneof{idx: 1, synthetic: nd.Bool()}
	var fs [3]*c05field
	for i := range fs {
		f := &c05field{num: protoreflect.FieldNumber(nd.Int32()), idx: int(nd.Uint16()), ext: nd.Bool(), name: protoreflect.FullName(nd.StringN(1))}
		switch nd.Int(0, 2) {
		case 1:
			f.oneof = o1
		case 2:
			f.oneof = o2
		}
		if f.ext {
			f.oneof = nil // extensions are never oneof members
		}
		fs[i] = f
	}
	for i := 0; i < 3; i++ {
		for j := 0; j < i; j++ {
			nd.Assume(fs[i].num != fs[j].num)
			if !fs[i].ext && !fs[j].ext {
				nd.Assume(fs[i].idx != fs[j].idx)
			}
			if fs[i].ext && fs[j].ext {
				nd.Assume(fs[i].name != fs[j].name)
			}
		}
	}
	return fs
}

func c05axioms(less FieldOrder, fs [3]*c05field) {
	x, y, z := fs[0], fs[1], fs[2]
	nd.Assert(!less(x, x), "irreflexive")
	lxy, lyx := less(x, y), less(y, x)
	nd.Assert(!(lxy && lyx), "asymmetric")
	nd.Assert(lxy || lyx, "total on distinct fields (unique sorted order)")
	if lxy && less(y, z) {
		nd.Reach("chain")
		nd.Assert(less(x, z), "transitive")
	}
}

// H_C05_fieldorder: the field orders used for deterministic output (and for the coder tables)
// are strict total orders on the fields of a message, so sorting has exactly one result.
//
//verif:props=C05 bounds=3-fields;all-int32-numbers;all-uint16-indexes;names-of-1-byte;extension/oneof-membership-symbolic ifconv=1
func H_C05_fieldorder() {
	fs := c05fields()
	switch nd.Int(0, 2) {
	case 0:
		nd.Reach("legacy")
		c05axioms(LegacyFieldOrder, fs)
	case 1:
		nd.Reach("number")
		c05axioms(NumberFieldOrder, fs)
	default:
		nd.Reach("index-name")
		c05axioms(IndexNameFieldOrder, fs)
	}
}

// H_C05_keyorder: GenericKeyOrder (map keys under Deterministic) is a strict total order on
// keys of one scalar type and orders them as documented.
//
//verif:props=C05 bounds=3-keys-of-one-type(bool,int32,int64,uint32,uint64,string<=2-bytes)
func H_C05_keyorder() {
	kind := nd.Int(0, 5)
	mk := func() protoreflect.MapKey {
		switch kind {
		case 0:
			return protoreflect.ValueOfBool(nd.Bool()).MapKey()
		case 1:
			return protoreflect.ValueOfInt32(nd.Int32()).MapKey()
		case 2:
			return protoreflect.ValueOfInt64(nd.Int64()).MapKey()
		case 3:
			return protoreflect.ValueOfUint32(nd.Uint32()).MapKey()
		case 4:
			return protoreflect.ValueOfUint64(nd.Uint64()).MapKey()
		default:
			return protoreflect.ValueOfString(nd.String(2)).MapKey()
		}
	}
	x, y, z := mk(), mk(), mk()
	less := GenericKeyOrder
	nd.Assert(!less(x, x), "irreflexive")
	lxy, lyx := less(x, y), less(y, x)
	nd.Assert(!(lxy && lyx), "asymmetric")
	eq := x.Value().Equal(y.Value())
	nd.Assert(eq == (!lxy && !lyx), "total: exactly equal keys are unordered")
	if lxy && less(y, z) {
		nd.Reach("chain")
		nd.Assert(less(x, z), "transitive")
	}
	switch kind {
	case 2:
		nd.Assert(lxy == (x.Int() < y.Int()), "numeric keys ascend")
	case 4:
		nd.Assert(lxy == (x.Uint() < y.Uint()), "unsigned keys ascend")
	case 0:
		nd.Assert(lxy == (!x.Bool() && y.Bool()), "false before true")
	}
}
