//go:build verif

package impl

// Opaque-API mirror types (presence bitmap, lazily decoded submessage) whose coder tables are
// built by the real makeOpaqueCoderMethods, and the lazy-vs-eager / flavour harnesses.

import (
	"reflect"
	"unsafe"

	"google.golang.org/protobuf/encoding/protowire"
	"google.golang.org/protobuf/internal/protolazy"
	"google.golang.org/protobuf/internal/zzverif/nd"
	"google.golang.org/protobuf/reflect/protoreflect"
	"google.golang.org/protobuf/reflect/protoregistry"
	"google.golang.org/protobuf/runtime/protoiface"
)

// VNode mirrors an opaque self-recursive node with a lazy child (like lazy_opaque.Node):
//
//	optional Node nested = 9 [lazy = true]; optional int32 i = 1; optional sint64 s = 2;
//	optional string str = 3; optional bytes byt = 4; required? no.
type VNode struct {
	state                  MessageState
	xxx_hidden_Nested      *VNode
	xxx_hidden_I           int32
	xxx_hidden_S           int64
	xxx_hidden_Str         *string
	xxx_hidden_Byt         []byte
	XXX_lazyUnmarshalInfo  *protolazy.XXX_lazyUnmarshalInfo
	XXX_raceDetectHookData RaceDetectHookData
	XXX_presence           [1]uint32
	unknownFields          UnknownFields
	sizeCache              SizeCache
}

var vmiNode *MessageInfo

func (*VNode) ProtoReflect() protoreflect.Message { return vRefl{mi: vMI_Node()} }
func vMI_Node() *MessageInfo {
	if vmiNode != nil {
		return vmiNode
	}
	vmiNode = &MessageInfo{}
	md := vmd("v.Node", protoreflect.Proto2)
	nested := vfd("nested", 9, protoreflect.MessageKind, opt, false, true, md)
	nested.lazy = true
	md.fields.list = []*vFD{
		nested,
		vfd("i", 1, protoreflect.Int32Kind, opt, false, true, nil),
		vfd("s", 2, protoreflect.Sint64Kind, opt, false, true, nil),
		vfd("str", 3, protoreflect.StringKind, opt, false, true, nil),
		vfd("byt", 4, protoreflect.BytesKind, opt, false, true, nil),
	}
	for _, f := range md.fields.list {
		f.parent = md
	}
	var x VNode
	si := opaqueStructInfo{structInfo: vsi()}
	si.sizecacheOffset, si.sizecacheType = offsetOfU(unsafe.Offsetof(x.sizeCache)), reflect.TypeOf(x.sizeCache)
	si.unknownOffset, si.unknownType = offsetOfU(unsafe.Offsetof(x.unknownFields)), reflect.TypeOf(x.unknownFields)
	si.lazyOffset = offsetOfU(unsafe.Offsetof(x.XXX_lazyUnmarshalInfo))
	si.presenceOffset = offsetOfU(unsafe.Offsetof(x.XXX_presence))
	si.fieldsByNumber[9] = vsf(reflect.TypeOf(x.xxx_hidden_Nested), unsafe.Offsetof(x.xxx_hidden_Nested))
	si.fieldsByNumber[1] = vsf(reflect.TypeOf(x.xxx_hidden_I), unsafe.Offsetof(x.xxx_hidden_I))
	si.fieldsByNumber[2] = vsf(reflect.TypeOf(x.xxx_hidden_S), unsafe.Offsetof(x.xxx_hidden_S))
	si.fieldsByNumber[3] = vsf(reflect.TypeOf(x.xxx_hidden_Str), unsafe.Offsetof(x.xxx_hidden_Str))
	si.fieldsByNumber[4] = vsf(reflect.TypeOf(x.xxx_hidden_Byt), unsafe.Offsetof(x.xxx_hidden_Byt))
	vmiNode.Desc = md
	vmiNode.GoReflectType = reflect.TypeOf(&x)
	vmiNode.initDone = 1
	vmiNode.makeOpaqueCoderMethods(reflect.TypeOf(x), si)
	return vmiNode
}

// VReqO: the opaque flavour of VReq (same schema: required int32 r1 = 1; optional int32 o2 = 2;
// required bool r3 = 3).
type VReqO struct {
	state                  MessageState
	xxx_hidden_R1          int32
	xxx_hidden_O2          int32
	xxx_hidden_R3          bool
	XXX_raceDetectHookData RaceDetectHookData
	XXX_presence           [1]uint32
	unknownFields          UnknownFields
	sizeCache              SizeCache
}

var vmiReqO *MessageInfo

func (*VReqO) ProtoReflect() protoreflect.Message { return vRefl{mi: vMI_ReqO()} }
func vMI_ReqO() *MessageInfo {
	if vmiReqO != nil {
		return vmiReqO
	}
	vmiReqO = &MessageInfo{}
	md := vmd("v.Req", protoreflect.Proto2,
		vfd("r1", 1, protoreflect.Int32Kind, req, false, true, nil),
		vfd("o2", 2, protoreflect.Int32Kind, opt, false, true, nil),
		vfd("r3", 3, protoreflect.BoolKind, req, false, true, nil))
	var x VReqO
	si := opaqueStructInfo{structInfo: vsi()}
	si.sizecacheOffset, si.sizecacheType = offsetOfU(unsafe.Offsetof(x.sizeCache)), reflect.TypeOf(x.sizeCache)
	si.unknownOffset, si.unknownType = offsetOfU(unsafe.Offsetof(x.unknownFields)), reflect.TypeOf(x.unknownFields)
	si.presenceOffset = offsetOfU(unsafe.Offsetof(x.XXX_presence))
	si.fieldsByNumber[1] = vsf(reflect.TypeOf(x.xxx_hidden_R1), unsafe.Offsetof(x.xxx_hidden_R1))
	si.fieldsByNumber[2] = vsf(reflect.TypeOf(x.xxx_hidden_O2), unsafe.Offsetof(x.xxx_hidden_O2))
	si.fieldsByNumber[3] = vsf(reflect.TypeOf(x.xxx_hidden_R3), unsafe.Offsetof(x.xxx_hidden_R3))
	vmiReqO.Desc = md
	vmiReqO.GoReflectType = reflect.TypeOf(&x)
	vmiReqO.initDone = 1
	vmiReqO.makeOpaqueCoderMethods(reflect.TypeOf(x), si)
	return vmiReqO
}

// VScalarsO: the opaque flavour of the first fields of VScalars2 (bool b = 1; int32 i32 = 2;
// sint32 s32 = 3; uint64 u64 = 4; fixed32 f32 = 5; sfixed64 sf64 = 6; string str = 7; bytes byt = 8;
// double dbl = 17).
type VScalarsO struct {
	state                  MessageState
	xxx_hidden_B           bool
	xxx_hidden_I32         int32
	xxx_hidden_S32         int32
	xxx_hidden_U64         uint64
	xxx_hidden_F32         uint32
	xxx_hidden_SF64        int64
	xxx_hidden_Str         *string
	xxx_hidden_Byt         []byte
	xxx_hidden_Dbl         float64
	XXX_raceDetectHookData RaceDetectHookData
	XXX_presence           [1]uint32
	unknownFields          UnknownFields
	sizeCache              SizeCache
}

var vmiScalarsO *MessageInfo

func (*VScalarsO) ProtoReflect() protoreflect.Message { return vRefl{mi: vMI_ScalarsO()} }
func vMI_ScalarsO() *MessageInfo {
	if vmiScalarsO != nil {
		return vmiScalarsO
	}
	vmiScalarsO = &MessageInfo{}
	md := vmd("v.Scalars2", protoreflect.Proto2,
		vfd("b", 1, protoreflect.BoolKind, opt, false, true, nil),
		vfd("i32", 2, protoreflect.Int32Kind, opt, false, true, nil),
		vfd("s32", 3, protoreflect.Sint32Kind, opt, false, true, nil),
		vfd("u64", 4, protoreflect.Uint64Kind, opt, false, true, nil),
		vfd("f32", 5, protoreflect.Fixed32Kind, opt, false, true, nil),
		vfd("sf64", 6, protoreflect.Sfixed64Kind, opt, false, true, nil),
		vfd("str", 7, protoreflect.StringKind, opt, false, true, nil),
		vfd("byt", 8, protoreflect.BytesKind, opt, false, true, nil),
		vfd("dbl", 17, protoreflect.DoubleKind, opt, false, true, nil))
	var x VScalarsO
	si := opaqueStructInfo{structInfo: vsi()}
	si.sizecacheOffset, si.sizecacheType = offsetOfU(unsafe.Offsetof(x.sizeCache)), reflect.TypeOf(x.sizeCache)
	si.unknownOffset, si.unknownType = offsetOfU(unsafe.Offsetof(x.unknownFields)), reflect.TypeOf(x.unknownFields)
	si.presenceOffset = offsetOfU(unsafe.Offsetof(x.XXX_presence))
	si.fieldsByNumber[1] = vsf(reflect.TypeOf(x.xxx_hidden_B), unsafe.Offsetof(x.xxx_hidden_B))
	si.fieldsByNumber[2] = vsf(reflect.TypeOf(x.xxx_hidden_I32), unsafe.Offsetof(x.xxx_hidden_I32))
	si.fieldsByNumber[3] = vsf(reflect.TypeOf(x.xxx_hidden_S32), unsafe.Offsetof(x.xxx_hidden_S32))
	si.fieldsByNumber[4] = vsf(reflect.TypeOf(x.xxx_hidden_U64), unsafe.Offsetof(x.xxx_hidden_U64))
	si.fieldsByNumber[5] = vsf(reflect.TypeOf(x.xxx_hidden_F32), unsafe.Offsetof(x.xxx_hidden_F32))
	si.fieldsByNumber[6] = vsf(reflect.TypeOf(x.xxx_hidden_SF64), unsafe.Offsetof(x.xxx_hidden_SF64))
	si.fieldsByNumber[7] = vsf(reflect.TypeOf(x.xxx_hidden_Str), unsafe.Offsetof(x.xxx_hidden_Str))
	si.fieldsByNumber[8] = vsf(reflect.TypeOf(x.xxx_hidden_Byt), unsafe.Offsetof(x.xxx_hidden_Byt))
	si.fieldsByNumber[17] = vsf(reflect.TypeOf(x.xxx_hidden_Dbl), unsafe.Offsetof(x.xxx_hidden_Dbl))
	vmiScalarsO.Desc = md
	vmiScalarsO.GoReflectType = reflect.TypeOf(&x)
	vmiScalarsO.initDone = 1
	vmiScalarsO.makeOpaqueCoderMethods(reflect.TypeOf(x), si)
	return vmiScalarsO
}

// mForceLazy forces every lazily stored child in a VNode tree (what a getter does).
func mForceLazy(p pointer, depth int) {
	if p.IsNil() || depth <= 0 {
		return
	}
	mi := vMI_Node()
	x := (*VNode)(p.p)
	pr := presence{P: unsafe.Pointer(&x.XXX_presence)}
	// field "nested" is the first declared field: presence index 0
	if pr.Present(0) {
		if x.xxx_hidden_Nested == nil {
			mi.lazyUnmarshal(p, 9)
		}
		mForceLazy(pointer{p: unsafe.Pointer(x.xxx_hidden_Nested)}, depth-1)
	}
}

// mLazyEager: the same input decoded lazily and eagerly.
func mLazyEager(b []byte) {
	mi := vMI_Node()
	lz := pointer{p: unsafe.Pointer(new(VNode))}
	eg := pointer{p: unsafe.Pointer(new(VNode))}
	depth := protowire.DefaultRecursionLimit
	// lazy decoding is only enabled with the global registry as resolver (CanBeLazy)
	ol := unmarshalOptions{resolver: protoregistry.GlobalTypes, depth: depth}
	oe := unmarshalOptions{resolver: protoregistry.GlobalTypes, depth: depth, flags: protoiface.UnmarshalNoLazyDecoding}
	outL, errL := mi.unmarshalPointer(b, lz, 0, ol)
	outE, errE := mi.unmarshalPointer(b, eg, 0, oe)
	nd.Assert((errL == nil) == (errE == nil), "lazy and eager decoding agree on the error verdict")
	if errL != nil || errE != nil {
		nd.Reach("rejected")
		return
	}
	nd.Reach("accepted")
	nd.Assert(outL.n == len(b) && outE.n == len(b), "both consume the whole input")
	nd.Assert(outL.initialized == outE.initialized, "same initialized flag")
	xl, xe := (*VNode)(lz.p), (*VNode)(eg.p)
	nd.Assert(xl.XXX_presence[0] == xe.XXX_presence[0], "same presence bits")
	if xl.XXX_presence[0]&1 != 0 && xl.xxx_hidden_Nested == nil {
		nd.Reach("child left lazy")
	}
	// size and non-deterministic marshal in the lazy state: Size == len, and the bytes decode (eagerly)
	// to the same message as the eager decode
	sizeL := mi.sizePointer(lz, marshalOptions{})
	rawL, merr := mi.marshalAppendPointer(nil, lz, marshalOptions{})
	nd.Assert(merr == nil, "marshal of a lazily decoded message succeeds")
	nd.Assert(len(rawL) == sizeL, "Size equals Marshal length for a lazily decoded message")
	canonE, _ := mCanon(mi, eg)
	again := pointer{p: unsafe.Pointer(new(VNode))}
	_, errA := mi.unmarshalPointer(rawL, again, 0, oe)
	nd.Assert(errA == nil, "marshal output of a lazily decoded message decodes")
	if errA == nil {
		canonA, _ := mCanon(mi, again)
		nd.Assert(mEq(canonA, canonE), "lazy pass-through bytes carry the same content")
	}
	// deterministic marshal forces the lazy fields: identical canonical bytes
	canonL, cerr := mCanon(mi, lz)
	nd.Assert(cerr == nil, "deterministic marshal of a lazily decoded message succeeds")
	nd.Assert(mEq(canonL, canonE), "lazy and eager decoding give the same deterministic encoding")
	nd.Assert((mi.checkInitializedPointer(lz) == nil) == (mi.checkInitializedPointer(eg) == nil), "same CheckInitialized verdict")
	// every later access succeeds
	mForceLazy(lz, 4)
	canonL2, _ := mCanon(mi, lz)
	nd.Assert(mEq(canonL2, canonE), "content unchanged after forcing every lazy field")
}

//verif:props=C17 bounds=VNode(opaque,lazy-self-recursive-child);all-byte-strings<=3(quick)/4(thorough) maxsteps=10000000 need=accepted|rejected|child_left_lazy
func H_M6_lazy_uniform() {
	N := 3
	if nd.Thorough() {
		N = 4
	}
	mLazyEager(nd.Bytes(N))
}

// H_M6_lazy_child: the input is [lazy child record: tag 0x4a, length, body of free bytes]
// optionally preceded/followed by a second child record or a scalar field, so that valid,
// invalid, repeated and out-of-order lazy children with bodies up to 4 bytes are all covered.
//
//verif:props=C17,C05 bounds=VNode;child-body<=2(quick)/3(thorough)-free-bytes;optional-second-record(child<=1-byte-body-or-int-field)-before-or-after maxsteps=10000000 need=accepted|rejected|child_left_lazy
func H_M6_lazy_child() {
	M := 2
	if nd.Thorough() {
		M = 3
	}
	n := nd.Int(0, M)
	body := nd.BytesN(n)
	rec := append([]byte{0x4a, byte(n)}, body...)
	var other []byte
	switch nd.Int(0, 2) {
	case 1:
		other = []byte{0x08, nd.Byte()} // int32 i = 1 (or start of a longer varint: then invalid)
	case 2:
		k := nd.Int(0, 1)
		other = append([]byte{0x4a, byte(k)}, nd.BytesN(k)...)
	}
	var b []byte
	if nd.Bool() {
		b = append(append(b, other...), rec...)
	} else {
		b = append(append(b, rec...), other...)
	}
	mLazyEager(b)
}

// mFlavours: the open-struct and the opaque flavour of one schema on the same input.
func mFlavours(open, opq *MessageInfo, po, pq pointer, b []byte) {
	o := mOpts()
	outO, errO := open.unmarshalPointer(b, po, 0, o)
	outQ, errQ := opq.unmarshalPointer(b, pq, 0, o)
	nd.Assert((errO == nil) == (errQ == nil), "both flavours agree on the error verdict")
	if errO != nil || errQ != nil {
		nd.Reach("rejected")
		return
	}
	nd.Reach("accepted")
	nd.Assert(outO.initialized == outQ.initialized, "same initialized flag")
	co, _ := mCanon(open, po)
	cq, _ := mCanon(opq, pq)
	nd.Assert(mEq(co, cq), "identical deterministic wire bytes")
	nd.Assert(open.sizePointer(po, marshalOptions{}) == opq.sizePointer(pq, marshalOptions{}), "same Size")
	nd.Assert((open.checkInitializedPointer(po) == nil) == (opq.checkInitializedPointer(pq) == nil), "same CheckInitialized verdict")
	vo, so := open.validate(b, 0, o)
	vq, sq := opq.validate(b, 0, o)
	nd.Assert(so == sq && vo.initialized == vq.initialized, "validators agree")
}

//verif:props=C29,C10 bounds=VReq-vs-VReqO;all-byte-strings<=4(quick)/5(thorough) maxsteps=8000000
func H_M7_flavours_req() {
	N := 4
	if nd.Thorough() {
		N = 5
	}
	mFlavours(vMI_Req(), vMI_ReqO(), pointer{p: unsafe.Pointer(new(VReq))}, pointer{p: unsafe.Pointer(new(VReqO))}, nd.Bytes(N))
}

//verif:props=C29,C11 bounds=VScalars2-vs-VScalarsO;all-byte-strings<=3(quick)/4(thorough) maxsteps=8000000
func H_M7_flavours_scalars() {
	N := 3
	if nd.Thorough() {
		N = 4
	}
	mFlavours(vMI_Scalars2(), vMI_ScalarsO(), pointer{p: unsafe.Pointer(new(VScalars2))}, pointer{p: unsafe.Pointer(new(VScalarsO))}, nd.Bytes(N))
}

//verif:props=C29 bounds=VScalars2-vs-VScalarsO;tag-byte+complete-payload-of-every-wire-type maxsteps=8000000
func H_M7_flavours_field() {
	mFlavours(vMI_Scalars2(), vMI_ScalarsO(), pointer{p: unsafe.Pointer(new(VScalars2))}, pointer{p: unsafe.Pointer(new(VScalarsO))}, mOneFieldBytes(0))
}

// VHolder: an open-struct message holding an opaque VNode as an ordinary (non-lazy) submessage,
// like mixed.OpenLazy.
type VHolder struct {
	state         MessageState
	sizeCache     SizeCache
	unknownFields UnknownFields
	Node          *VNode // 1 optional Node
	I             *int32 // 2 optional int32
}

var vmiHolder *MessageInfo

func (*VHolder) ProtoReflect() protoreflect.Message { return vRefl{mi: vMI_Holder()} }
func vMI_Holder() *MessageInfo {
	if vmiHolder != nil {
		return vmiHolder
	}
	vmiHolder = &MessageInfo{}
	node := vMI_Node()
	md := vmd("v.Holder", protoreflect.Proto2,
		vfd("node", 1, protoreflect.MessageKind, opt, false, true, node.Desc.(*vMD)),
		vfd("i", 2, protoreflect.Int32Kind, opt, false, true, nil))
	var x VHolder
	si := vsi()
	si.sizecacheOffset, si.sizecacheType = offsetOfU(unsafe.Offsetof(x.sizeCache)), reflect.TypeOf(x.sizeCache)
	si.unknownOffset, si.unknownType = offsetOfU(unsafe.Offsetof(x.unknownFields)), reflect.TypeOf(x.unknownFields)
	si.fieldsByNumber[1] = vsf(reflect.TypeOf(x.Node), unsafe.Offsetof(x.Node))
	si.fieldsByNumber[2] = vsf(reflect.TypeOf(x.I), unsafe.Offsetof(x.I))
	vfinish(vmiHolder, md, reflect.TypeOf(&x), si)
	return vmiHolder
}

// mLazyAlias decodes b (lazily) into a message and a private copy of b into a twin, overwrites b
// and only then looks at the message: it must equal the twin. (Marshalling the message before the
// overwrite would expand the lazy fields and hide an aliased buffer.)
func mLazyAlias(mi *MessageInfo, p, twin pointer, b []byte, pre bool) {
	o := unmarshalOptions{resolver: protoregistry.GlobalTypes, depth: protowire.DefaultRecursionLimit}
	cp := append([]byte(nil), b...)
	if pre {
		// an earlier decode of empty input (Unmarshal(nil, m) followed by Merge:true decoding)
		_, _ = mi.unmarshalPointer(nil, p, 0, o)
		_, _ = mi.unmarshalPointer(nil, twin, 0, o)
	}
	_, err := mi.unmarshalPointer(b, p, 0, o)
	_, terr := mi.unmarshalPointer(cp, twin, 0, o)
	nd.Assume(err == nil && terr == nil)
	nd.Reach("decoded")
	mScribble(b)
	got, gerr := mCanon(mi, p)
	want, werr := mCanon(mi, twin)
	nd.Assert(gerr == nil && werr == nil, "marshal succeeds")
	nd.Assert(mEq(got, want), "overwriting the input buffer does not change a lazily decoded message")
}

//verif:props=C14,C17 bounds=VNode;lazy-child-record-with-body<=3(quick)/4(thorough)-free-bytes+optional-scalar-field;optionally-after-an-empty-decode maxsteps=10000000
func H_M4_lazy_alias() {
	M := 3
	if nd.Thorough() {
		M = 4
	}
	n := nd.Int(0, M)
	b := append([]byte{0x4a, byte(n)}, nd.BytesN(n)...)
	if nd.Bool() {
		b = append(b, 0x08, nd.Byte())
	}
	mLazyAlias(vMI_Node(), pointer{p: unsafe.Pointer(new(VNode))}, pointer{p: unsafe.Pointer(new(VNode))}, b, nd.Bool())
}

// H_M4_lazy_alias_holder: the submessage field occurs twice on the wire (first occurrence with a
// body of <=1 byte, e.g. empty; second occurrence holding a lazy grandchild with a body of <=2
// bytes), so the opaque child is lazily decoded twice into the same message.
//
//verif:props=C14,C17 bounds=VHolder{VNode{lazy-child}};two-occurrences-of-the-node-field;first-body<=1-byte;second=lazy-grandchild-record-with-body<=2-bytes maxsteps=10000000
func H_M4_lazy_alias_holder() {
	n1 := nd.Int(0, 1)
	k := nd.Int(0, 2)
	b := append([]byte{0x0a, byte(n1)}, nd.BytesN(n1)...)
	b = append(b, 0x0a, byte(2+k), 0x4a, byte(k))
	b = append(b, nd.BytesN(k)...)
	mLazyAlias(vMI_Holder(), pointer{p: unsafe.Pointer(new(VHolder))}, pointer{p: unsafe.Pointer(new(VHolder))}, b, false)
}

// H_M6_lazy_split: the lazy child occurs twice with another field in between (non-contiguous
// occurrences: two index entries for one field), optionally followed by a third record.
//
//verif:props=C17 bounds=VNode;child(body<=2)+int-field+child(body<=2) maxsteps=10000000 need=accepted|rejected|child_left_lazy
func H_M6_lazy_split() {
	n1, n2 := nd.Int(0, 2), nd.Int(0, 2)
	b := append([]byte{0x4a, byte(n1)}, nd.BytesN(n1)...)
	b = append(b, 0x08, nd.Byte())
	b = append(b, 0x4a, byte(n2))
	b = append(b, nd.BytesN(n2)...)
	mLazyEager(b)
}

// VLazyReq: an opaque message with a lazy submessage that has required fields
// (like testopaque.TestRequiredLazy):  optional Req child = 1 [lazy = true]; optional int32 i = 2.
type VLazyReq struct {
	state                  MessageState
	xxx_hidden_Child       *VReqO
	xxx_hidden_I           int32
	XXX_lazyUnmarshalInfo  *protolazy.XXX_lazyUnmarshalInfo
	XXX_raceDetectHookData RaceDetectHookData
	XXX_presence           [1]uint32
	unknownFields          UnknownFields
	sizeCache              SizeCache
}

var vmiLazyReq *MessageInfo

func (*VLazyReq) ProtoReflect() protoreflect.Message { return vRefl{mi: vMI_LazyReq()} }
func vMI_LazyReq() *MessageInfo {
	if vmiLazyReq != nil {
		return vmiLazyReq
	}
	vmiLazyReq = &MessageInfo{}
	child := vMI_ReqO()
	cf := vfd("child", 1, protoreflect.MessageKind, opt, false, true, child.Desc.(*vMD))
	cf.lazy = true
	md := vmd("v.LazyReq", protoreflect.Proto2, cf, vfd("i", 2, protoreflect.Int32Kind, opt, false, true, nil))
	var x VLazyReq
	si := opaqueStructInfo{structInfo: vsi()}
	si.sizecacheOffset, si.sizecacheType = offsetOfU(unsafe.Offsetof(x.sizeCache)), reflect.TypeOf(x.sizeCache)
	si.unknownOffset, si.unknownType = offsetOfU(unsafe.Offsetof(x.unknownFields)), reflect.TypeOf(x.unknownFields)
	si.lazyOffset = offsetOfU(unsafe.Offsetof(x.XXX_lazyUnmarshalInfo))
	si.presenceOffset = offsetOfU(unsafe.Offsetof(x.XXX_presence))
	si.fieldsByNumber[1] = vsf(reflect.TypeOf(x.xxx_hidden_Child), unsafe.Offsetof(x.xxx_hidden_Child))
	si.fieldsByNumber[2] = vsf(reflect.TypeOf(x.xxx_hidden_I), unsafe.Offsetof(x.xxx_hidden_I))
	vmiLazyReq.Desc = md
	vmiLazyReq.GoReflectType = reflect.TypeOf(&x)
	vmiLazyReq.initDone = 1
	vmiLazyReq.makeOpaqueCoderMethods(reflect.TypeOf(x), si)
	return vmiLazyReq
}

// H_M6_lazy_required: Unmarshal without AllowPartial (the decoder is told to check required
// fields) of a message whose lazily decoded child misses a required field: what proto.Unmarshal
// does next is `if !initialized { return checkInitialized(m) }`, so the message is reported
// complete iff the fast-path flag is set or checkInitializedPointer returns nil. That verdict
// must be the same with and without lazy decoding.
//
//verif:props=C10,C17 bounds=VLazyReq{lazy-child-with-required-fields};all-byte-strings<=4(quick)/5(thorough) maxsteps=10000000
func H_M6_lazy_required() {
	N := 4
	if nd.Thorough() {
		N = 5
	}
	b := nd.Bytes(N)
	mi := vMI_LazyReq()
	lz := pointer{p: unsafe.Pointer(new(VLazyReq))}
	eg := pointer{p: unsafe.Pointer(new(VLazyReq))}
	fl := protoiface.UnmarshalCheckRequired
	ol := unmarshalOptions{resolver: protoregistry.GlobalTypes, depth: protowire.DefaultRecursionLimit, flags: fl}
	oe := unmarshalOptions{resolver: protoregistry.GlobalTypes, depth: protowire.DefaultRecursionLimit, flags: fl | protoiface.UnmarshalNoLazyDecoding}
	outL, errL := mi.unmarshalPointer(b, lz, 0, ol)
	outE, errE := mi.unmarshalPointer(b, eg, 0, oe)
	nd.Assert((errL == nil) == (errE == nil), "lazy and eager decoding agree on the error verdict")
	if errL != nil || errE != nil {
		nd.Reach("rejected")
		return
	}
	nd.Reach("accepted")
	completeL := outL.initialized || mi.checkInitializedPointer(lz) == nil
	completeE := outE.initialized || mi.checkInitializedPointer(eg) == nil
	if completeE {
		nd.Reach("complete")
	} else {
		nd.Reach("partial")
	}
	nd.Assert(completeL == completeE, "Unmarshal without AllowPartial reports a missing required field identically with and without lazy decoding")
}

func vNodeUnknown(x *VNode, depth int) int {
	if x == nil || depth == 0 {
		return 0
	}
	return len(x.unknownFields) + vNodeUnknown(x.xxx_hidden_Nested, depth-1)
}

// H_M6_lazy_discard: with DiscardUnknown, what Marshal emits right after Unmarshal (before any
// access, i.e. including raw pass-through of lazily stored children) contains no unknown field
// anywhere in the tree.
//
//verif:props=C09,C17 bounds=VNode;child-record(body<=2(quick)/3(thorough)-free-bytes)+optional-unknown-field;default-resolver maxsteps=10000000
func H_M6_lazy_discard() {
	M := 2
	if nd.Thorough() {
		M = 3
	}
	n := nd.Int(0, M)
	b := append([]byte{0x4a, byte(n)}, nd.BytesN(n)...)
	if nd.Bool() {
		b = append(b, 0x50, nd.Byte()) // unknown varint field 10 at top level
	}
	mi := vMI_Node()
	p := pointer{p: unsafe.Pointer(new(VNode))}
	o := unmarshalOptions{resolver: protoregistry.GlobalTypes, depth: protowire.DefaultRecursionLimit, flags: protoiface.UnmarshalDiscardUnknown}
	_, err := mi.unmarshalPointer(b, p, 0, o)
	nd.Assume(err == nil)
	nd.Reach("decoded")
	size := mi.sizePointer(p, marshalOptions{})
	raw, merr := mi.marshalAppendPointer(nil, p, marshalOptions{})
	nd.Assert(merr == nil && len(raw) == size, "Size equals Marshal length")
	// decode the output eagerly, keeping unknown fields, and look for any
	q := pointer{p: unsafe.Pointer(new(VNode))}
	oe := unmarshalOptions{resolver: protoregistry.GlobalTypes, depth: protowire.DefaultRecursionLimit, flags: protoiface.UnmarshalNoLazyDecoding}
	_, qerr := mi.unmarshalPointer(raw, q, 0, oe)
	nd.Assert(qerr == nil, "Marshal output decodes")
	if qerr == nil {
		nd.Assert(vNodeUnknown((*VNode)(q.p), 4) == 0, "after DiscardUnknown no unknown field is re-emitted by Marshal")
	}
}

// H_M6_lazy_longvarint: the lazy child holds one scalar field with a long varint (5, 9 or 10
// bytes, continuation bits forced, value bits free), as its last field: the validator used for
// lazy children (short-buffer and long-buffer varint ladders) and the eager decoder must agree.
//
//verif:props=C17,C29,C06 bounds=VNode;child={int32-or-sint64-field-with-a-5/9/10-byte-varint}+optional-trailing-scalar maxsteps=10000000 need=accepted|rejected|child_left_lazy
func H_M6_lazy_longvarint() {
	n := []int{5, 9, 10}[nd.Int(0, 2)]
	v := nd.BytesN(n)
	for i := 0; i < n-1; i++ {
		nd.Assume(v[i] >= 0x80)
	}
	nd.Assume(v[n-1] < 0x80)
	tag := byte(0x08)
	if nd.Bool() {
		tag = 0x10
	}
	body := append([]byte{tag}, v...)
	b := append([]byte{0x4a, byte(len(body))}, body...)
	if nd.Bool() {
		b = append(b, 0x08, nd.Byte())
	}
	mLazyEager(b)
}

// H_C18_lazy_publish_order: the ordering half of lazy publication that a sequential run cannot
// observe. A lazily decoded VNode whose lazy child arrives in one or two non-contiguous records
// is forced by lazyUnmarshal; the engine logs every atomic pointer write (publication) made by
// that call together with a snapshot of everything reachable from the published pointer that the
// call itself built. Afterwards nothing in those snapshots may have been written by a plain
// store: a concurrent reader that obtains the pointer sees the finished submessage. A second
// lazyUnmarshal (the losing racer) must leave the published instance in place and untouched.
//
//verif:props=C18,C17 bounds=VNode;child(body<=2)[+int-field+child(body<=2)];one-forcing-call+one-losing-racer maxsteps=10000000 need=forced
func H_C18_lazy_publish_order() {
	n1 := nd.Int(0, 2)
	b := append([]byte{0x4a, byte(n1)}, nd.BytesN(n1)...)
	if nd.Bool() {
		n2 := nd.Int(0, 2)
		b = append(b, 0x08, nd.Byte())
		b = append(b, 0x4a, byte(n2))
		b = append(b, nd.BytesN(n2)...)
	}
	mi := vMI_Node()
	lz := pointer{p: unsafe.Pointer(new(VNode))}
	ol := unmarshalOptions{resolver: protoregistry.GlobalTypes, depth: protowire.DefaultRecursionLimit}
	_, err := mi.unmarshalPointer(b, lz, 0, ol)
	nd.Assume(err == nil)
	x := (*VNode)(lz.p)
	nd.Assume(x.XXX_presence[0]&1 != 0 && x.xxx_hidden_Nested == nil) // child present and still lazy
	nd.PublishLogStart()
	mi.lazyUnmarshal(lz, 9)
	nd.Reach("forced")
	first := x.xxx_hidden_Nested
	nd.Assert(first != nil, "forcing publishes the submessage")
	nd.Assert(nd.Publications() >= 1, "the submessage pointer is written atomically")
	nd.Assert(nd.PublishedFrozen(), "ordering: the lazily decoded submessage is complete when its pointer is published")
	// the losing racer: a second decode of the same field must not replace or modify the instance
	before, _ := mCanon(mi, pointer{p: unsafe.Pointer(first)})
	nd.PublishLogStart()
	mi.lazyUnmarshal(lz, 9)
	nd.Assert(x.xxx_hidden_Nested == first, "all readers obtain the same submessage instance")
	after, _ := mCanon(mi, pointer{p: unsafe.Pointer(first)})
	nd.Assert(mEq(before, after), "a losing racer leaves the published instance unchanged")
}
