//go:build verif

package impl

import (
	"unsafe"

	"google.golang.org/protobuf/runtime/protoiface"

	"google.golang.org/protobuf/internal/zzverif/nd"
)

// H_C11_bitmap: one step of the opaque-API presence bitmap from an arbitrary state (which
// stands for every set/clear history): SetPresent/SetPresentUnatomic/ClearPresent change
// exactly the addressed bit; Present reads it; AnyPresent and PresentInCache agree with Present.
//
//verif:props=C11 bounds=3-word-bitmap-with-arbitrary-contents;field-index<96;probe<96
func H_C11_bitmap() {
	var bm [3]uint32
	bm[0], bm[1], bm[2] = nd.Uint32(), nd.Uint32(), nd.Uint32()
	old := bm
	p := presence{P: unsafe.Pointer(&bm)}
	num := nd.Uint32()
	nd.Assume(num < 96)
	k := nd.Uint32()
	nd.Assume(k < 96)
	refBit := func(w [3]uint32, i uint32) bool { return w[i/32]&(1<<(i%32)) != 0 }
	before := p.Present(k)
	nd.Assert(before == refBit(old, k), "Present reads the addressed bit")
	op := nd.Int(0, 2)
	switch op {
	case 0:
		p.SetPresent(num, 96)
		nd.Reach("set")
	case 1:
		p.SetPresentUnatomic(num, 96)
		nd.Reach("set unatomic")
	default:
		p.ClearPresent(num)
		nd.Reach("clear")
	}
	after := p.Present(k)
	if op == 2 {
		nd.Assert(after == (before && k != num), "Clear removes exactly the addressed field")
	} else {
		nd.Assert(after == (before || k == num), "Set adds exactly the addressed field")
	}
	for j := uint32(0); j < 3; j++ {
		want := old[j]
		if j == num/32 {
			if op == 2 {
				want &^= 1 << (num % 32)
			} else {
				want |= 1 << (num % 32)
			}
		}
		nd.Assert(bm[j] == want, "only the addressed bit changes")
	}
	// AnyPresent over the first size bits (size is the number of fields, rounded up to words)
	size := nd.Uint32()
	nd.Assume(size <= 96)
	any := false
	for j := uint32(0); j < (size+31)/32; j++ {
		nz := bm[j] != 0
		any = any || nz
	}
	nd.Assert(p.AnyPresent(presenceSize(size)) == any, "AnyPresent is the disjunction of the covered words")
	nd.Assert(p.LoadPresenceCache() == bm[0], "LoadPresenceCache is the first word")
}

// H_C11_presence_cache: PresentInCache with a consistent cache equals Present and leaves the
// cache consistent.
//
//verif:props=C11 bounds=3-word-bitmap;arbitrary-consistent-cache-state;field-index<96
func H_C11_presence_cache() {
	var bm [3]uint32
	bm[0], bm[1], bm[2] = nd.Uint32(), nd.Uint32(), nd.Uint32()
	p := presence{P: unsafe.Pointer(&bm)}
	num := nd.Uint32()
	nd.Assume(num < 96)
	cached := nd.Uint32()
	cur := nd.Uint32()
	// a cache is consistent when it holds the current value of the word it names; any other
	// element index (e.g. the initial sentinel) names no word
	if cached < 3 {
		nd.Assume(cur == bm[cached])
	}
	got := p.PresentInCache(num, &cached, &cur)
	nd.Reach("looked up")
	nd.Assert(got == p.Present(num), "PresentInCache agrees with Present")
	nd.Assert(cached == num/32 && cur == bm[num/32], "cache is consistent afterwards")
}

// H_C18_publish: the write-once publication primitives used for lazily created submessages and
// wrappers: from an arbitrary pre-state of the cell (nil or already published by another reader)
// a non-nil cell is never overwritten and every caller obtains the cell's final value.
//
//verif:props=C18,C17 bounds=one-step-from-arbitrary-cell-state(nil-or-published)
func H_C18_publish() {
	var other, mine int64 // two distinct instances
	var cell unsafe.Pointer
	published := nd.Bool()
	if published {
		cell = unsafe.Pointer(&other)
	}
	pre := cell
	which := nd.Int(0, 3)
	switch which {
	case 0:
		got := pointer{p: unsafe.Pointer(&cell)}.AtomicSetPointerIfNil(pointer{p: unsafe.Pointer(&mine)})
		nd.Reach("AtomicSetPointerIfNil")
		nd.Assert(got.p == cell, "caller obtains the cell's final value")
	case 1:
		dst := unsafe.Pointer(&mine)
		Export{}.AtomicInitializePointer(Pointer(unsafe.Pointer(&cell)), Pointer(unsafe.Pointer(&dst)))
		nd.Reach("AtomicInitializePointer")
		nd.Assert(dst == cell, "caller obtains the cell's final value")
	case 2:
		var dst unsafe.Pointer
		Export{}.AtomicLoadPointer(Pointer(unsafe.Pointer(&cell)), Pointer(unsafe.Pointer(&dst)))
		nd.Reach("AtomicLoadPointer")
		nd.Assert(dst == cell && cell == pre, "load returns the cell and does not change it")
	default:
		mi := atomicV1MessageInfo{p: Pointer(cell)}
		got := mi.SetIfNil(Pointer(unsafe.Pointer(&mine)))
		cell = unsafe.Pointer(mi.p)
		nd.Reach("SetIfNil")
		nd.Assert(unsafe.Pointer(got) == cell, "caller obtains the cell's final value")
	}
	if published {
		nd.Assert(cell == pre, "a published value is never overwritten")
	} else if which != 2 {
		nd.Assert(cell == unsafe.Pointer(&mine), "an empty cell takes the offered value")
	}
}

// H_C18_nilmessage: atomicNilMessage.Init returns the same wrapper to every caller.
//
//verif:props=C18 bounds=one-step-from-arbitrary-cell-state;two-successive-callers
func H_C18_nilmessage() {
	var m atomicNilMessage
	var pre messageReflectWrapper
	if nd.Bool() {
		m.p = unsafe.Pointer(&pre)
	}
	mi := &MessageInfo{}
	w1 := m.Init(mi)
	w2 := m.Init(mi)
	nd.Reach("initialised")
	nd.Assert(w1 != nil && w1 == w2, "all callers obtain the same instance")
	nd.Assert(unsafe.Pointer(w1) == m.p, "the returned instance is the published one")
}

// H_C05_lazy_deterministic: under Deterministic, lazily stored fields are never passed through as
// raw bytes (they are decoded and re-encoded), whatever the other marshal flags are.
//
//verif:props=C05 bounds=all-marshal-flag-bytes
func H_C05_lazy_deterministic() {
	f := nd.Byte()
	o := marshalOptions{flags: protoiface.MarshalInputFlags(f)}
	if o.Deterministic() {
		nd.Reach("deterministic")
		nd.Assert(!lazyFields(o), "no raw pass-through of lazy fields under Deterministic")
	} else {
		nd.Reach("default")
		nd.Assert(lazyFields(o), "lazy fields stay lazy otherwise")
	}
}
