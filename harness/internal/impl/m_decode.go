//go:build verif

package impl

import (
	"unicode/utf8"
	"unsafe"

	"google.golang.org/protobuf/encoding/protowire"
	"google.golang.org/protobuf/internal/zzverif/nd"
	"google.golang.org/protobuf/reflect/protoreflect"
	"google.golang.org/protobuf/reflect/protoregistry"
	"google.golang.org/protobuf/runtime/protoiface"
)

// vResolver is an empty extension registry (every lookup is NotFound).
type vResolver struct{}

func (vResolver) FindExtensionByName(protoreflect.FullName) (protoreflect.ExtensionType, error) {
	return nil, protoregistry.NotFound
}
func (vResolver) FindExtensionByNumber(protoreflect.FullName, protoreflect.FieldNumber) (protoreflect.ExtensionType, error) {
	return nil, protoregistry.NotFound
}

// mScan is the generic wire scanner: b is a sequence of complete fields with field numbers in
// 1..2^29-1 (groups balanced), nested no deeper than depth.
func mScan(b []byte) bool {
	for len(b) > 0 {
		num, _, n := protowire.ConsumeField(b)
		if n < 0 || num > protowire.MaxValidNumber {
			return false
		}
		b = b[n:]
	}
	return true
}

func mEq(a, b []byte) bool {
	if len(a) != len(b) {
		return false
	}
	ok := true
	for i := range a {
		ok = ok && a[i] == b[i]
	}
	return ok
}

func mCanon(mi *MessageInfo, p pointer) ([]byte, error) {
	return mi.marshalAppendPointer(nil, p, marshalOptions{flags: protoiface.MarshalDeterministic})
}

// mDecodeChecks is the body shared by the per-type decode harnesses.
func mDecodeChecks(k int, b []byte) {
	mi, p := vType(k)
	var fl protoiface.UnmarshalInputFlags
	if nd.Bool() {
		fl |= protoiface.UnmarshalDiscardUnknown
	}
	opts := unmarshalOptions{flags: fl, resolver: vResolver{}, depth: protowire.DefaultRecursionLimit}
	out, err := mi.unmarshalPointer(b, p, 0, opts)
	vout, st := mi.validate(b, 0, opts)
	scan := mScan(b)
	if err == nil {
		nd.Reach("accepted")
		nd.Assert(out.n == len(b), "Unmarshal consumes exactly its input")
		nd.Assert(scan, "accepted input is well-formed wire data")
		nd.Assert(st != ValidationInvalid, "validator does not call an accepted buffer invalid")
		ierr := mi.checkInitializedPointer(p)
		if out.initialized {
			nd.Assert(ierr == nil, "decoder never marks a partial message initialized")
		}
		if st == ValidationValid && vout.initialized {
			nd.Assert(ierr == nil, "validator never reports a partial message as initialized")
		}
		// converse on the re-marshalled form (the flag may be conservative on duplicated input)
		if ierr == nil {
			nd.Reach("initialized")
			canon, merr := mCanon(mi, p)
			nd.Assert(merr == nil, "marshal of a decoded message succeeds")
			_, q := vType(k)
			out2, err2 := mi.unmarshalPointer(canon, q, 0, opts)
			nd.Assert(err2 == nil, "canonical encoding decodes")
			nd.Assert(out2.initialized, "decoder reports a complete message (canonical form) as initialized")
			vout2, st2 := mi.validate(canon, 0, opts)
			nd.Assert(st2 != ValidationInvalid, "validator accepts the canonical form")
			if st2 == ValidationValid {
				nd.Assert(vout2.initialized, "validator reports a complete message (canonical form) as initialized")
			}
		} else {
			nd.Reach("partial")
		}
	} else {
		nd.Reach("rejected")
		nd.Assert(st != ValidationValid, "validator does not call a rejected buffer valid")
	}
	if !scan {
		nd.Assert(err != nil, "malformed wire data is rejected")
	}
}

// H_M1_scalars2 ... : Unmarshal vs validate vs generic scan vs checkInitialized on every input.
//
//verif:props=C06 bounds=VScalars2;all-byte-strings<=3(quick)/4(thorough) maxsteps=6000000
func H_M1_scalars2() {
	N := 3
	if nd.Thorough() {
		N = 4
	}
	mDecodeChecks(0, nd.Bytes(N))
}

//verif:props=C06,C13 bounds=VScalars3;all-byte-strings<=3(quick)/4(thorough) maxsteps=6000000
func H_M1_scalars3() {
	N := 3
	if nd.Thorough() {
		N = 4
	}
	mDecodeChecks(1, nd.Bytes(N))
}

//verif:props=C06,C13 bounds=VRepeats;all-byte-strings<=3(quick)/4(thorough) maxsteps=6000000
func H_M1_repeats() {
	N := 3
	if nd.Thorough() {
		N = 4
	}
	mDecodeChecks(2, nd.Bytes(N))
}

//verif:props=C06 bounds=VNests;all-byte-strings<=3(quick)/4(thorough) maxsteps=6000000
func H_M1_nests() {
	N := 3
	if nd.Thorough() {
		N = 4
	}
	mDecodeChecks(3, nd.Bytes(N))
}

//verif:props=C06,C10 bounds=VReq;all-byte-strings<=4(quick)/5(thorough) maxsteps=6000000
func H_M1_req() {
	N := 4
	if nd.Thorough() {
		N = 5
	}
	mDecodeChecks(4, nd.Bytes(N))
}

//verif:props=C06,C10 bounds=VReqOuter;all-byte-strings<=4(quick)/5(thorough) maxsteps=6000000
func H_M1_reqouter() {
	N := 4
	if nd.Thorough() {
		N = 5
	}
	mDecodeChecks(5, nd.Bytes(N))
}

//verif:props=C06,C09 bounds=VEmpty;all-byte-strings<=3(quick)/4(thorough) maxsteps=6000000
func H_M1_empty() {
	N := 3
	if nd.Thorough() {
		N = 4
	}
	mDecodeChecks(6, nd.Bytes(N))
}

// mOneFieldBytes builds one complete first field: a symbolic tag byte (every field number 1..15,
// every wire type) and a payload of exactly the right shape with symbolic contents: varints of
// 1,2,3,5,9 or 10 bytes (continuation bits forced, value bits free), fixed32/64, length-delimited
// payloads of 0..3 bytes, a group holding one free byte; then `trail` free bytes.
func mOneFieldBytes(trail int) []byte {
	tag := nd.Byte()
	nd.Assume(tag < 0x80 && tag >= 8)
	b := []byte{tag}
	switch tag & 7 {
	case 0:
		L := nd.Int(0, 5)
		n := []int{1, 2, 3, 5, 9, 10}[L]
		v := nd.BytesN(n)
		for i := 0; i < n-1; i++ {
			nd.Assume(v[i] >= 0x80)
		}
		nd.Assume(v[n-1] < 0x80)
		b = append(b, v...)
	case 1:
		b = append(b, nd.BytesN(8)...)
	case 5:
		b = append(b, nd.BytesN(4)...)
	case 2:
		n := nd.Int(0, 3)
		b = append(b, byte(n))
		b = append(b, nd.BytesN(n)...)
	case 3:
		b = append(b, nd.BytesN(2)...) // e.g. one tag+value or an end tag + 1
		b = append(b, tag&^7|4)
	default:
		// end group / invalid wire types: nothing follows
	}
	return append(b, nd.BytesN(trail)...)
}

func mOneField(k int, trail int) { mDecodeChecks(k, mOneFieldBytes(trail)) }

//verif:props=C06 bounds=VScalars2;tag-byte(any-field-1..15,any-wire-type)+complete-payload(varints-to-10-bytes,fixed,bytes<=3,group)+0(quick)/1(thorough)-trailing-bytes maxsteps=6000000
func H_M1_field_scalars2() {
	M := 0
	if nd.Thorough() {
		M = 1
	}
	mOneField(0, M)
}

//verif:props=C06,C13 bounds=VScalars3;tag-byte+complete-payload+0(quick)/1(thorough)-trailing-bytes maxsteps=6000000
func H_M1_field_scalars3() {
	M := 0
	if nd.Thorough() {
		M = 1
	}
	mOneField(1, M)
}

//verif:props=C06,C13 bounds=VRepeats;tag-byte+complete-payload+0(quick)/1(thorough)-trailing-bytes maxsteps=6000000
func H_M1_field_repeats() {
	M := 0
	if nd.Thorough() {
		M = 1
	}
	mOneField(2, M)
}

// H_M1_depth: with a small recursion limit (0..3, where proto.UnmarshalOptions.RecursionLimit
// is passed straight through) the decoder and the validator agree on which nestings exceed it:
// valid => decodes, invalid => fails, on messages, groups and repeated variants nested in VNests.
//
//verif:props=C06 bounds=VNests;all-byte-strings<=3(quick)/4(thorough);recursion-limit-0..2(quick)/0..3(thorough) maxsteps=6000000
func H_M1_depth() {
	N := 3
	if nd.Thorough() {
		N = 4
	}
	b := nd.Bytes(N)
	depth := nd.Int(0, 2)
	if nd.Thorough() {
		depth = nd.Int(0, 3)
	}
	mi, p := vType(3)
	opts := unmarshalOptions{resolver: vResolver{}, depth: depth}
	_, err := mi.unmarshalPointer(b, p, 0, opts)
	_, st := mi.validate(b, 0, opts)
	if err == nil {
		nd.Reach("accepted")
		nd.Assert(st != ValidationInvalid, "validator does not call an accepted buffer invalid")
	} else {
		nd.Reach("rejected")
		nd.Assert(st != ValidationValid, "validator does not call a rejected buffer valid (recursion limit included)")
	}
	// reference: an input that decodes with the default limit decodes with limit `depth` exactly
	// when its nesting (known message and group fields of VNests) needs no more than `depth` levels
	_, q := vType(3)
	_, bigErr := mi.unmarshalPointer(b, q, 0, mOpts())
	if bigErr == nil {
		need := vNestsDepth(b, 4)
		nd.Assert((err == nil) == (need <= depth), "Unmarshal fails exactly when the nesting exceeds the recursion limit")
		if need > depth {
			nd.Reach("limit exceeded")
		}
	} else {
		nd.Assert(err != nil, "malformed input is rejected whatever the limit")
	}
}

// vNestsDepth: levels of decoding a well-formed VNests encoding needs (1 for the message itself,
// +1 per nested known message/group: fields 1,2 (Child), 3,4 (Child groups), 5 (Nests)).
func vNestsDepth(b []byte, fuel int) int {
	need := 1
	if fuel == 0 {
		return need
	}
	for len(b) > 0 {
		num, typ, n := protowire.ConsumeTag(b)
		if n <= 0 {
			return need
		}
		b = b[n:]
		m := protowire.ConsumeFieldValue(num, typ, b)
		if m < 0 {
			return need
		}
		d := 1
		switch {
		case (num == 1 || num == 2) && typ == protowire.BytesType:
			d = 2
		case (num == 3 || num == 4) && typ == protowire.StartGroupType:
			d = 2
		case num == 5 && typ == protowire.BytesType:
			v, _ := protowire.ConsumeBytes(b)
			d = 1 + vNestsDepth(v, fuel-1)
		}
		if d > need {
			need = d
		}
		b = b[m:]
	}
	return need
}

// vReqComplete is the reference required-field check written against the mirror types.
func vReqComplete(r *VReq) bool { return r == nil || (r.R1 != nil && r.R3 != nil) }

func vCycAComplete(a *VCycA, depth int) bool {
	if a == nil || depth == 0 {
		return true
	}
	ok := vReqComplete(a.R)
	if a.B != nil {
		c := vCycAComplete(a.B.A, depth-1)
		ok = ok && c
	}
	return ok
}

// H_M1_cycle_required: required fields below a cycle of message types (A -> B -> A, A -> Req).
// Input: A{ b: B{ a: A{ r: Req{<free bytes>} } } } with the Req body symbolic. What
// proto.Unmarshal reports (initialized flag, else CheckInitialized) must equal a reference walk
// of the decoded tree.
//
//verif:props=C10 bounds=VCycA{b:VCycB{a:VCycA{r:VReq{body<=4-free-bytes}}}};type-A-initialised-first maxsteps=8000000
func H_M1_cycle_required() {
	n := nd.Int(0, 4)
	body := nd.BytesN(n)
	b := []byte{0x0a, byte(4 + n), 0x0a, byte(2 + n), 0x12, byte(n)}
	b = append(b, body...)
	mi := vMI_CycA()
	p := pointer{p: unsafe.Pointer(new(VCycA))}
	out, err := mi.unmarshalPointer(b, p, 0, mOpts())
	nd.Assume(err == nil)
	nd.Reach("decoded")
	reported := out.initialized || mi.checkInitializedPointer(p) == nil
	want := vCycAComplete((*VCycA)(p.p), 4)
	if want {
		nd.Reach("complete")
	} else {
		nd.Reach("partial")
	}
	nd.Assert(reported == want, "Unmarshal/CheckInitialized report a missing required field below a cycle of message types")
}

// H_M1_many_required: a message with 66 required fields (more than the 64 bits of the fast-path
// required mask): with every field on the wire except possibly one (which one is symbolic, the
// values are symbolic), Unmarshal's verdict (initialized flag, else CheckInitialized) and the
// validator's flag must say "complete" exactly when no field is missing.
//
//verif:props=C10 bounds=VBig(66-required-int32-fields);all-fields-present-except-at-most-one(symbolic);values<128-symbolic maxsteps=20000000 ccap=80
func H_M1_many_required() {
	skip := nd.Int(0, vBigN) // 0: nothing missing
	var b []byte
	for i := 1; i <= vBigN; i++ {
		if i == skip {
			continue
		}
		b = protowire.AppendTag(b, protowire.Number(i), protowire.VarintType)
		v := nd.Byte()
		nd.Assume(v < 0x80)
		b = append(b, v)
	}
	mi := vMI_Big()
	p := pointer{p: unsafe.Pointer(new(VBig))}
	out, err := mi.unmarshalPointer(b, p, 0, mOpts())
	nd.Assert(err == nil, "well-formed input decodes")
	if err != nil {
		return
	}
	nd.Reach("decoded")
	reported := out.initialized || mi.checkInitializedPointer(p) == nil
	nd.Assert(reported == (skip == 0), "a missing required field is reported whichever of the 66 it is")
	vout, st := mi.validate(b, 0, mOpts())
	nd.Assert(st != ValidationInvalid, "validator accepts well-formed input")
	if st == ValidationValid && vout.initialized {
		nd.Assert(skip == 0, "validator never reports a partial message as initialized")
	}
}

//verif:props=C06 bounds=VAll2(enum,uint32,int64,sint64,fixed64,sfixed32,float-pointers);tag-byte+complete-payload-of-every-wire-type maxsteps=8000000
func H_M1_field_all2() { mDecodeChecks(10, mOneFieldBytes(0)) }

//verif:props=C06 bounds=VAll3(10-implicit-presence-kinds);tag-byte+complete-payload-of-every-wire-type maxsteps=8000000
func H_M1_field_all3() { mDecodeChecks(11, mOneFieldBytes(0)) }

//verif:props=C06 bounds=VAllRep(13-unpacked-repeated-kinds);tag-byte+complete-payload(packed-payloads-0..4(quick)/+8(thorough)-bytes) maxsteps=8000000 deadline=900
func H_M1_field_allrep() { mDecodeChecks(12, mOneFieldBytesPacked()) }

//verif:props=C06 bounds=VAllPacked(10-packed-kinds);tag-byte+complete-payload(packed-payloads-0..4(quick)/+8(thorough)-bytes) maxsteps=8000000 deadline=900
func H_M1_field_allpacked() { mDecodeChecks(13, mOneFieldBytesPacked()) }

// H_M1_utf8: string/bytes fields against the UTF-8 reference (utf8.Valid executed symbolically):
// a validated string field (proto3 singular and repeated) accepts exactly valid UTF-8, a proto2
// string field and bytes fields accept every payload; the stored value is the payload, unchanged,
// and the validator gives the same verdict.
//
//verif:props=C13 bounds=4-field-kinds(proto3-string,proto3-repeated-string,proto2-string,proto3-bytes);payload<=4(quick)/5(thorough)-free-bytes(every-rune-width,every-invalid-class) maxsteps=8000000
func H_M1_utf8() {
	M := 4
	if nd.Thorough() {
		M = 5
	}
	n := nd.Int(0, M)
	payload := nd.BytesN(n)
	which := nd.Int(0, 3)
	var k int
	var tag byte
	validated := false
	switch which {
	case 0:
		k, tag, validated = 1, 0x1a, true // VScalars3.str = 3
	case 1:
		k, tag, validated = 2, 0x22, true // VRepeats.str = 4
	case 2:
		k, tag = 0, 0x3a // VScalars2.str = 7 (proto2: not validated)
	default:
		k, tag = 1, 0x22 // VScalars3.byt = 4
	}
	b := append([]byte{tag, byte(n)}, payload...)
	mi, p := vType(k)
	_, err := mi.unmarshalPointer(b, p, 0, mOpts())
	_, st := mi.validate(b, 0, mOpts())
	valid := utf8.Valid(payload)
	if validated {
		nd.Assert((err == nil) == valid, "validated string field accepts exactly valid UTF-8")
		if valid {
			nd.Reach("valid UTF-8")
			nd.Assert(st != ValidationInvalid, "validator accepts valid UTF-8")
		} else {
			nd.Reach("invalid UTF-8")
			nd.Assert(st != ValidationValid, "validator does not accept invalid UTF-8 in a validated field")
		}
	} else {
		nd.Reach("not validated")
		nd.Assert(err == nil, "non-validated string and bytes fields accept arbitrary bytes")
		nd.Assert(st != ValidationInvalid, "validator accepts arbitrary bytes in a non-validated field")
	}
	if err != nil {
		return
	}
	// stored value is the payload, unchanged
	var got []byte
	switch which {
	case 0:
		got = []byte((*VScalars3)(p.p).Str)
	case 1:
		x := (*VRepeats)(p.p)
		nd.Assert(len(x.Str) == 1, "one element appended")
		if len(x.Str) == 1 {
			got = []byte(x.Str[0])
		}
	case 2:
		x := (*VScalars2)(p.p)
		nd.Assert(x.Str != nil, "proto2 string is set")
		if x.Str != nil {
			got = []byte(*x.Str)
		}
	default:
		got = (*VScalars3)(p.p).Byt
	}
	nd.Assert(mEq(got, payload), "stored value equals the payload")
	// marshal side: a message holding invalid UTF-8 in a validated field cannot exist after a
	// successful decode; valid content is re-emitted unchanged
	canon, merr := mCanon(mi, p)
	nd.Assert(merr == nil, "marshal succeeds")
	if n > 0 || which == 1 || which == 2 {
		nd.Assert(mEq(canon, b), "field is re-emitted unchanged")
	}
}
