//go:build verif

package impl

import (
	"unsafe"

	"google.golang.org/protobuf/encoding/protowire"
	"google.golang.org/protobuf/internal/zzverif/nd"
	"google.golang.org/protobuf/runtime/protoiface"
)

// mHasImplicitZero reports whether y (well-formed wire data for VScalars3) carries a record of an
// implicit-presence scalar (fields 1..6) whose payload is the zero value.
func mHasImplicitZero(y []byte) bool {
	res := false
	for len(y) > 0 {
		num, typ, n := protowire.ConsumeTag(y)
		if n <= 0 {
			return res
		}
		y = y[n:]
		m := protowire.ConsumeFieldValue(num, typ, y)
		if m < 0 {
			return res
		}
		if num >= 1 && num <= 10 {
			allzero := true
			for i := 0; i < m; i++ {
				z := y[i] == 0 || (typ == protowire.VarintType && y[i] == 0x80)
				allzero = allzero && z
			}
			res = res || allzero
		}
		y = y[m:]
	}
	return res
}

// mMerge: Merge(a, b) against decoding of concatenations, for a = dec(x), b = dec(y).
func mMerge(k int, x, y []byte) { mMergeK(k, x, y, k == 1) }

// mMergeK: implicit says whether the type has implicit-presence scalars in fields 1..10 (then an
// explicit zero record in y is the excused input class).
func mMergeK(k int, x, y []byte, implicit bool) {
	mi, pa := vType(k)
	_, pb := vType(k)
	_, ea := mi.unmarshalPointer(x, pa, 0, mOpts())
	_, eb := mi.unmarshalPointer(y, pb, 0, mOpts())
	nd.Assume(ea == nil && eb == nil)
	nd.Reach("both decoded")
	ca, _ := mCanon(mi, pa)
	cb, _ := mCanon(mi, pb)
	// Merge(a, b)
	mi.mergePointer(pa, pb, mergeOptions{})
	merged, merr := mCanon(mi, pa)
	nd.Assert(merr == nil, "marshal of merged message succeeds")
	cb2, _ := mCanon(mi, pb)
	nd.Assert(mEq(cb, cb2), "Merge does not modify its source")
	// (1) Merge(a,b) == Unmarshal(Marshal(a) ++ Marshal(b))
	_, pc := vType(k)
	cat := append(append([]byte(nil), ca...), cb...)
	_, ec := mi.unmarshalPointer(cat, pc, 0, mOpts())
	nd.Assert(ec == nil, "concatenation of two encodings decodes")
	if ec == nil {
		cc, _ := mCanon(mi, pc)
		nd.Assert(mEq(cc, merged), "Merge(a,b) equals decoding Marshal(a)++Marshal(b)")
	}
	// (2) Unmarshal(x ++ y) == Merge(Unmarshal(x), Unmarshal(y))  and
	// (3) decoding y into a with Merge:true == Merge(a, Unmarshal(y))
	_, pd := vType(k)
	raw := append(append([]byte(nil), x...), y...)
	_, ed := mi.unmarshalPointer(raw, pd, 0, mOpts())
	nd.Assert(ed == nil, "concatenation of two valid inputs decodes")
	_, pe := vType(k)
	_, _ = mi.unmarshalPointer(x, pe, 0, mOpts())
	_, ee := mi.unmarshalPointer(y, pe, 0, mOpts()) // decode y into the populated message (Merge:true)
	nd.Assert(ee == nil, "decoding into a populated message succeeds")
	if ed == nil && ee == nil {
		cd, _ := mCanon(mi, pd)
		ce, _ := mCanon(mi, pe)
		if implicit && mHasImplicitZero(y) {
			// protobuf's merge semantics keep the old value when the source holds the zero value of an
			// implicit-presence scalar, while wire decoding overwrites with the explicit zero.
			nd.Reach("explicit zero of implicit-presence scalar in y")
			nd.Assert(mEq(cd, merged), "Unmarshal(x++y) equals Merge(Unmarshal(x),Unmarshal(y)) [y carries an explicit zero of an implicit-presence scalar]")
			nd.Assert(mEq(ce, merged), "Unmarshal(y) into m with Merge:true equals Merge(m,Unmarshal(y)) [y carries an explicit zero of an implicit-presence scalar]")
		} else {
			nd.Assert(mEq(cd, merged), "Unmarshal(x++y) equals Merge(Unmarshal(x),Unmarshal(y))")
			nd.Assert(mEq(ce, merged), "Unmarshal(y) into m with Merge:true equals Merge(m,Unmarshal(y))")
		}
	}
}

func mSplit(N int) ([]byte, []byte) {
	nx := nd.Int(0, N)
	x := nd.BytesN(nx)
	y := nd.Bytes(N - nx)
	return x, y
}

//verif:props=C07 bounds=VScalars2;|x|+|y|<=3(quick)/4(thorough) maxsteps=8000000
func H_M3_scalars2() {
	N := 3
	if nd.Thorough() {
		N = 4
	}
	x, y := mSplit(N)
	mMerge(0, x, y)
}

//verif:props=C07 bounds=VScalars3;|x|+|y|<=3(quick)/4(thorough) maxsteps=8000000
func H_M3_scalars3() {
	N := 3
	if nd.Thorough() {
		N = 4
	}
	x, y := mSplit(N)
	mMerge(1, x, y)
}

//verif:props=C07 bounds=VRepeats;|x|+|y|<=3(quick)/4(thorough) maxsteps=8000000
func H_M3_repeats() {
	N := 3
	if nd.Thorough() {
		N = 4
	}
	x, y := mSplit(N)
	mMerge(2, x, y)
}

//verif:props=C07 bounds=VNests;|x|+|y|<=3(quick)/4(thorough) maxsteps=8000000
func H_M3_nests() {
	N := 3
	if nd.Thorough() {
		N = 4
	}
	x, y := mSplit(N)
	mMerge(3, x, y)
}

// mScribble overwrites every byte of b with a fresh arbitrary value.
func mScribble(b []byte) {
	for i := range b {
		b[i] = nd.Byte()
	}
}

// mAlias: after Unmarshal returns, overwriting the input buffer does not change the message.
func mAlias(k int, b []byte) {
	mi, p := vType(k)
	_, err := mi.unmarshalPointer(b, p, 0, mOpts())
	nd.Assume(err == nil)
	nd.Reach("decoded")
	before, _ := mCanon(mi, p)
	mScribble(b)
	after, _ := mCanon(mi, p)
	nd.Assert(mEq(before, after), "overwriting the input buffer does not change the decoded message")
}

//verif:props=C14 bounds=VScalars2;all-byte-strings<=4(quick)/5(thorough) maxsteps=8000000
func H_M4_scalars2() {
	N := 4
	if nd.Thorough() {
		N = 5
	}
	mAlias(0, nd.Bytes(N))
}

//verif:props=C14 bounds=VScalars3;all-byte-strings<=4(quick)/5(thorough) maxsteps=8000000
func H_M4_scalars3() {
	N := 4
	if nd.Thorough() {
		N = 5
	}
	mAlias(1, nd.Bytes(N))
}

//verif:props=C14 bounds=VRepeats;all-byte-strings<=4(quick)/5(thorough) maxsteps=8000000
func H_M4_repeats() {
	N := 4
	if nd.Thorough() {
		N = 5
	}
	mAlias(2, nd.Bytes(N))
}

//verif:props=C14 bounds=VNests;all-byte-strings<=4(quick)/5(thorough) maxsteps=8000000
func H_M4_nests() {
	N := 4
	if nd.Thorough() {
		N = 5
	}
	mAlias(3, nd.Bytes(N))
}

//verif:props=C14 bounds=VEmpty(unknown-fields);all-byte-strings<=4(quick)/5(thorough) maxsteps=8000000
func H_M4_empty() {
	N := 4
	if nd.Thorough() {
		N = 5
	}
	mAlias(6, nd.Bytes(N))
}

// H_M4_merge_alias: after Merge(dst, src), mutating src's byte slices (bytes fields, repeated bytes,
// unknown fields, submessage contents) does not change dst.
//
//verif:props=C14 bounds=VScalars2/VRepeats/VNests;src-from-all-byte-strings<=3(quick)/4(thorough) maxsteps=8000000
func H_M4_merge_alias() {
	k := nd.Int(0, 2)
	if k == 1 {
		k = 2
	} else if k == 2 {
		k = 3
	}
	N := 3
	if nd.Thorough() {
		N = 4
	}
	b := nd.Bytes(N)
	mi, src := vType(k)
	_, dst := vType(k)
	_, err := mi.unmarshalPointer(b, src, 0, mOpts())
	nd.Assume(err == nil)
	nd.Reach("source decoded")
	mi.mergePointer(dst, src, mergeOptions{})
	before, _ := mCanon(mi, dst)
	// mutate every byte slice reachable from src
	switch k {
	case 0:
		x := (*VScalars2)(src.p)
		mScribble(x.Byt)
		mScribble(x.unknownFields)
		if x.I32 != nil {
			*x.I32 = nd.Int32()
		}
	case 2:
		x := (*VRepeats)(src.p)
		for _, e := range x.Byt {
			mScribble(e)
		}
		for i := range x.I32 {
			x.I32[i] = nd.Int32()
		}
		for i := range x.PU64 {
			x.PU64[i] = nd.Uint64()
		}
		mScribble(x.unknownFields)
	case 3:
		x := (*VNests)(src.p)
		mScribble(x.unknownFields)
		if x.Msg != nil {
			mScribble(x.Msg.unknownFields)
			if x.Msg.A != nil {
				*x.Msg.A = nd.Int32()
			}
		}
		for _, c := range x.RMsg {
			mScribble(c.unknownFields)
			if c.A != nil {
				*c.A = nd.Int32()
			}
		}
		if x.Grp != nil && x.Grp.A != nil {
			*x.Grp.A = nd.Int32()
		}
	}
	after, _ := mCanon(mi, dst)
	nd.Assert(mEq(before, after), "mutating the source after Merge does not change the destination")
}

// mSetCaches stores an arbitrary value into the size cache of every message in the tree.
func mSetCaches(k int, p pointer) {
	switch k {
	case 3:
		x := (*VNests)(p.p)
		x.sizeCache = nd.Int32()
		if x.Msg != nil {
			x.Msg.sizeCache = nd.Int32()
		}
		if x.Grp != nil {
			x.Grp.sizeCache = nd.Int32()
		}
		for _, c := range x.RMsg {
			c.sizeCache = nd.Int32()
		}
		for _, c := range x.RGrp {
			c.sizeCache = nd.Int32()
		}
		if x.Self != nil {
			mSetCaches(3, pointer{p: unsafe.Pointer(x.Self)})
		}
	case 5:
		x := (*VReqOuter)(p.p)
		x.sizeCache = nd.Int32()
		if x.M != nil {
			x.M.sizeCache = nd.Int32()
		}
		if x.G != nil {
			x.G.sizeCache = nd.Int32()
		}
		for _, c := range x.RM {
			c.sizeCache = nd.Int32()
		}
	case 0:
		(*VScalars2)(p.p).sizeCache = nd.Int32()
	}
}

// H_M5_sizecache: whatever the size caches in the tree hold (arbitrary values stand for every
// history of earlier Size/Marshal calls and mutations), the sequence proto.Marshal performs
// (Size, then Marshal with UseCachedSize) encodes the message's current content.
//
//verif:props=C16 bounds=VNests/VReqOuter/VScalars2;messages-from-all-byte-strings<=3(quick)/4(thorough);arbitrary-int32-cache-contents maxsteps=8000000
func H_M5_sizecache() {
	N := 3
	if nd.Thorough() {
		N = 4
	}
	k := nd.Int(0, 2)
	if k == 1 {
		k = 3
	} else if k == 2 {
		k = 5
	}
	b := nd.Bytes(N)
	mi, p := vType(k)
	_, err := mi.unmarshalPointer(b, p, 0, mOpts())
	nd.Assume(err == nil)
	nd.Reach("decoded")
	want, _ := mi.marshalAppendPointer(nil, p, marshalOptions{})
	mSetCaches(k, p)
	size := mi.sizePointer(p, marshalOptions{})
	got, merr := mi.marshalAppendPointer(nil, p, marshalOptions{flags: protoiface.MarshalUseCachedSize})
	nd.Assert(merr == nil, "marshal succeeds")
	nd.Assert(size == len(want), "Size is recomputed, not taken from a stale cache")
	nd.Assert(mEq(got, want), "Marshal after Size encodes the current content whatever the caches held")
}

// H_M3_fixed_scalars3: Merge vs concatenated decoding for the implicit-presence float field of
// VScalars3 (field 6, fixed32) with both records carrying arbitrary bit patterns (NaNs, -0.0,
// denormals): the only input class excused is an explicit +0.0 in y (all payload bits zero).
//
//verif:props=C07 bounds=VScalars3;x,y=one-fixed32-record-each-with-4-free-bytes maxsteps=8000000
func H_M3_fixed_scalars3() {
	x := append([]byte{0x35}, nd.BytesN(4)...)
	y := append([]byte{0x35}, nd.BytesN(4)...)
	mMerge(1, x, y)
}

// H_M3_fixed_all3: the same for the implicit-presence double (field 10, fixed64) and fixed64
// (field 7) fields of VAll3.
//
//verif:props=C07 bounds=VAll3;x,y=one-fixed64-record-each(double-or-fixed64-field)-with-8-free-bytes maxsteps=8000000
func H_M3_fixed_all3() {
	tag := byte(0x51) // field 10, fixed64: double
	if nd.Bool() {
		tag = 0x39 // field 7, fixed64
	}
	x := append([]byte{tag}, nd.BytesN(8)...)
	y := append([]byte{tag}, nd.BytesN(8)...)
	mMergeK(11, x, y, true)
}

// mTwoRecords builds two records x, y of the SAME symbolic field (tag byte shared, any field
// 1..15, any wire type) with independent symbolic payloads of a small exact shape.
func mTwoRecords() ([]byte, []byte) {
	tag := nd.Byte()
	nd.Assume(tag < 0x80 && tag >= 8)
	rec := func() []byte {
		b := []byte{tag}
		switch tag & 7 {
		case 0:
			n := nd.Int(1, 2)
			v := nd.BytesN(n)
			if n == 2 {
				nd.Assume(v[0] >= 0x80)
			}
			nd.Assume(v[n-1] < 0x80)
			b = append(b, v...)
		case 1:
			b = append(b, nd.BytesN(8)...)
		case 5:
			b = append(b, nd.BytesN(4)...)
		case 2:
			n := nd.Int(0, 2)
			b = append(b, byte(n))
			b = append(b, nd.BytesN(n)...)
		}
		return b
	}
	return rec(), rec()
}

//verif:props=C07 bounds=VAll2;x,y=one-record-each-of-the-same-symbolic-field(varint<=2-bytes,fixed32,fixed64,bytes<=2) maxsteps=8000000
func H_M3_field_all2() {
	x, y := mTwoRecords()
	mMergeK(10, x, y, false)
}

//verif:props=C07 bounds=VAll3;x,y=one-record-each-of-the-same-symbolic-field maxsteps=8000000
func H_M3_field_all3() {
	x, y := mTwoRecords()
	mMergeK(11, x, y, true)
}

//verif:props=C07 bounds=VAllRep;x,y=one-record-each-of-the-same-symbolic-field maxsteps=8000000
func H_M3_field_allrep() {
	x, y := mTwoRecords()
	mMergeK(12, x, y, false)
}

//verif:props=C07 bounds=VAllPacked;x,y=one-record-each-of-the-same-symbolic-field maxsteps=8000000
func H_M3_field_allpacked() {
	x, y := mTwoRecords()
	mMergeK(13, x, y, false)
}

//verif:props=C07 bounds=VScalars2-and-VScalars3;x,y=one-record-each-of-the-same-symbolic-field maxsteps=8000000
func H_M3_field_scalars() {
	x, y := mTwoRecords()
	if nd.Bool() {
		mMergeK(0, x, y, false)
	} else {
		mMergeK(1, x, y, true)
	}
}

// Opaque-API messages (presence bitmap): Merge vs concatenated decoding.

//verif:props=C07 bounds=VScalarsO(opaque);x,y=one-record-each-of-the-same-symbolic-field maxsteps=8000000
func H_M3_field_opaque() {
	x, y := mTwoRecords()
	mMergeK(20, x, y, false)
}

//verif:props=C07 bounds=VScalarsO(opaque)-and-VReqO;|x|+|y|<=3(quick)/4(thorough) maxsteps=8000000
func H_M3_opaque() {
	N := 3
	if nd.Thorough() {
		N = 4
	}
	x, y := mSplit(N)
	if nd.Bool() {
		mMergeK(20, x, y, false)
	} else {
		mMergeK(21, x, y, false)
	}
}

// H_M3_node: merging messages with a (lazily decoded) child: x and y are each an optional child
// record with a body of <=1 free byte and an optional scalar field; decoding uses the default
// options of mOpts (eager) for the oracle side and the merge runs on eagerly decoded operands.
//
//verif:props=C07,C17 bounds=VNode;x,y=optional-child-record(body<=1(quick)/2(thorough)-free-bytes)+optional-int-field maxsteps=8000000 deadline=900
func H_M3_node() {
	M := 1
	if nd.Thorough() {
		M = 2
	}
	mk := func() []byte {
		var b []byte
		if nd.Bool() {
			n := nd.Int(0, M)
			b = append(b, 0x4a, byte(n))
			b = append(b, nd.BytesN(n)...)
		}
		if nd.Bool() {
			b = append(b, 0x08, nd.Byte())
		}
		return b
	}
	x, y := mk(), mk()
	mMergeK(22, x, y, false)
}
