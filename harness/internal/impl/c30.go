//go:build verif

package impl

import (
	"google.golang.org/protobuf/internal/zzverif/nd"
	"google.golang.org/protobuf/reflect/protoreflect"
)

// c30recs builds a sequence of n varint records whose field numbers are 1 or 2 and whose
// one-byte values are symbolic.
func c30recs(n int) []byte {
	var b []byte
	for i := 0; i < n; i++ {
		tag := byte(0x08)
		if nd.Bool() {
			tag = 0x10
		}
		v := nd.Byte()
		nd.Assume(v < 0x80)
		b = append(b, tag, v)
	}
	return b
}

func c30perField(b []byte, tag byte) []byte {
	var out []byte
	for i := 0; i+1 < len(b); i += 2 {
		if b[i] == tag {
			out = append(out, b[i+1])
		}
	}
	return out
}

// H_C30_unknown: the fast path's comparison of unknown fields (used by proto.Equal for generated
// messages): two unknown-field sets are equal iff, for every field number, the records of that
// number are the same in the same order (records of different numbers may be interleaved
// differently); it is reflexive and symmetric.
//
//verif:props=C30 bounds=two-sequences-of-0..3-varint-records;field-numbers-1..2;symbolic-one-byte-values
func H_C30_unknown() {
	nx, ny := nd.Int(0, 3), nd.Int(0, 3)
	x, y := c30recs(nx), c30recs(ny)
	got := equalUnknown(protoreflect.RawFields(x), protoreflect.RawFields(y))
	want := mEq(c30perField(x, 0x08), c30perField(y, 0x08)) && mEq(c30perField(x, 0x10), c30perField(y, 0x10))
	nd.Reach("compared")
	nd.Assert(got == want, "unknown fields are equal iff every field number has the same records in the same order")
	nd.Assert(equalUnknown(protoreflect.RawFields(y), protoreflect.RawFields(x)) == got, "symmetric")
	nd.Assert(equalUnknown(protoreflect.RawFields(x), protoreflect.RawFields(x)), "reflexive")
}
