//go:build verif

package impl

// Further mirror types so that every scalar kind is exercised in every representation
// (pointer / implicit presence / unpacked list / packed list) by the one-field harnesses.

import (
	"reflect"
	"unsafe"

	"google.golang.org/protobuf/internal/zzverif/nd"
	"google.golang.org/protobuf/reflect/protoreflect"
)

type vFieldSpec struct {
	kind protoreflect.Kind
	typ  reflect.Type
	off  uintptr
}

func vBuildFlat(mi *MessageInfo, name string, syntax protoreflect.Syntax, card protoreflect.Cardinality, packed, presence bool,
	ptrType reflect.Type, scOff, unkOff uintptr, specs []vFieldSpec) {
	md := vmd(name, syntax)
	si := vsi()
	var sc SizeCache
	var unk UnknownFields
	si.sizecacheOffset, si.sizecacheType = offsetOfU(scOff), reflect.TypeOf(sc)
	si.unknownOffset, si.unknownType = offsetOfU(unkOff), reflect.TypeOf(unk)
	for i, sp := range specs {
		num := protoreflect.FieldNumber(i + 1)
		f := vfd("f", num, sp.kind, card, packed, presence, nil)
		f.parent = md
		md.fields.list = append(md.fields.list, f)
		si.fieldsByNumber[num] = vsf(sp.typ, sp.off)
	}
	vfinish(mi, md, ptrType, si)
}

// VAll2: proto2 optional (pointer) representation of the kinds VScalars2 does not have.
type VAll2 struct {
	state         MessageState
	sizeCache     SizeCache
	unknownFields UnknownFields
	E             *int32   // 1 enum
	U32           *uint32  // 2 uint32
	I64           *int64   // 3 int64
	S64           *int64   // 4 sint64
	F64           *uint64  // 5 fixed64
	SF32          *int32   // 6 sfixed32
	Fl            *float32 // 7 float
}

var vmiAll2 *MessageInfo

func (*VAll2) ProtoReflect() protoreflect.Message { return vRefl{mi: vMI_All2()} }
func vMI_All2() *MessageInfo {
	if vmiAll2 != nil {
		return vmiAll2
	}
	vmiAll2 = &MessageInfo{}
	var x VAll2
	vBuildFlat(vmiAll2, "v.All2", protoreflect.Proto2, opt, false, true, reflect.TypeOf(&x),
		unsafe.Offsetof(x.sizeCache), unsafe.Offsetof(x.unknownFields), []vFieldSpec{
			{protoreflect.EnumKind, reflect.TypeOf(x.E), unsafe.Offsetof(x.E)},
			{protoreflect.Uint32Kind, reflect.TypeOf(x.U32), unsafe.Offsetof(x.U32)},
			{protoreflect.Int64Kind, reflect.TypeOf(x.I64), unsafe.Offsetof(x.I64)},
			{protoreflect.Sint64Kind, reflect.TypeOf(x.S64), unsafe.Offsetof(x.S64)},
			{protoreflect.Fixed64Kind, reflect.TypeOf(x.F64), unsafe.Offsetof(x.F64)},
			{protoreflect.Sfixed32Kind, reflect.TypeOf(x.SF32), unsafe.Offsetof(x.SF32)},
			{protoreflect.FloatKind, reflect.TypeOf(x.Fl), unsafe.Offsetof(x.Fl)},
		})
	return vmiAll2
}

// VAll3: proto3 implicit-presence representation of the kinds VScalars3 does not have.
type VAll3 struct {
	state         MessageState
	sizeCache     SizeCache
	unknownFields UnknownFields
	E             int32   // 1 enum
	U32           uint32  // 2 uint32
	I64           int64   // 3 int64
	U64           uint64  // 4 uint64
	S32           int32   // 5 sint32
	F32           uint32  // 6 fixed32
	F64           uint64  // 7 fixed64
	SF32          int32   // 8 sfixed32
	SF64          int64   // 9 sfixed64
	D             float64 // 10 double
}

var vmiAll3 *MessageInfo

func (*VAll3) ProtoReflect() protoreflect.Message { return vRefl{mi: vMI_All3()} }
func vMI_All3() *MessageInfo {
	if vmiAll3 != nil {
		return vmiAll3
	}
	vmiAll3 = &MessageInfo{}
	var x VAll3
	vBuildFlat(vmiAll3, "v.All3", protoreflect.Proto3, opt, false, false, reflect.TypeOf(&x),
		unsafe.Offsetof(x.sizeCache), unsafe.Offsetof(x.unknownFields), []vFieldSpec{
			{protoreflect.EnumKind, reflect.TypeOf(x.E), unsafe.Offsetof(x.E)},
			{protoreflect.Uint32Kind, reflect.TypeOf(x.U32), unsafe.Offsetof(x.U32)},
			{protoreflect.Int64Kind, reflect.TypeOf(x.I64), unsafe.Offsetof(x.I64)},
			{protoreflect.Uint64Kind, reflect.TypeOf(x.U64), unsafe.Offsetof(x.U64)},
			{protoreflect.Sint32Kind, reflect.TypeOf(x.S32), unsafe.Offsetof(x.S32)},
			{protoreflect.Fixed32Kind, reflect.TypeOf(x.F32), unsafe.Offsetof(x.F32)},
			{protoreflect.Fixed64Kind, reflect.TypeOf(x.F64), unsafe.Offsetof(x.F64)},
			{protoreflect.Sfixed32Kind, reflect.TypeOf(x.SF32), unsafe.Offsetof(x.SF32)},
			{protoreflect.Sfixed64Kind, reflect.TypeOf(x.SF64), unsafe.Offsetof(x.SF64)},
			{protoreflect.DoubleKind, reflect.TypeOf(x.D), unsafe.Offsetof(x.D)},
		})
	return vmiAll3
}

// VAllRep: unpacked repeated representation (proto2) of the kinds VRepeats does not have.
type VAllRep struct {
	state         MessageState
	sizeCache     SizeCache
	unknownFields UnknownFields
	B             []bool    // 1
	E             []int32   // 2 enum
	S32           []int32   // 3 sint32
	U32           []uint32  // 4
	I64           []int64   // 5
	S64           []int64   // 6 sint64
	U64           []uint64  // 7
	SF32          []int32   // 8 sfixed32
	F32           []uint32  // 9 fixed32
	Fl            []float32 // 10
	SF64          []int64   // 11 sfixed64
	F64           []uint64  // 12 fixed64
	D             []float64 // 13
}

var vmiAllRep *MessageInfo

func (*VAllRep) ProtoReflect() protoreflect.Message { return vRefl{mi: vMI_AllRep()} }
func vMI_AllRep() *MessageInfo {
	if vmiAllRep != nil {
		return vmiAllRep
	}
	vmiAllRep = &MessageInfo{}
	var x VAllRep
	vBuildFlat(vmiAllRep, "v.AllRep", protoreflect.Proto2, rep, false, false, reflect.TypeOf(&x),
		unsafe.Offsetof(x.sizeCache), unsafe.Offsetof(x.unknownFields), []vFieldSpec{
			{protoreflect.BoolKind, reflect.TypeOf(x.B), unsafe.Offsetof(x.B)},
			{protoreflect.EnumKind, reflect.TypeOf(x.E), unsafe.Offsetof(x.E)},
			{protoreflect.Sint32Kind, reflect.TypeOf(x.S32), unsafe.Offsetof(x.S32)},
			{protoreflect.Uint32Kind, reflect.TypeOf(x.U32), unsafe.Offsetof(x.U32)},
			{protoreflect.Int64Kind, reflect.TypeOf(x.I64), unsafe.Offsetof(x.I64)},
			{protoreflect.Sint64Kind, reflect.TypeOf(x.S64), unsafe.Offsetof(x.S64)},
			{protoreflect.Uint64Kind, reflect.TypeOf(x.U64), unsafe.Offsetof(x.U64)},
			{protoreflect.Sfixed32Kind, reflect.TypeOf(x.SF32), unsafe.Offsetof(x.SF32)},
			{protoreflect.Fixed32Kind, reflect.TypeOf(x.F32), unsafe.Offsetof(x.F32)},
			{protoreflect.FloatKind, reflect.TypeOf(x.Fl), unsafe.Offsetof(x.Fl)},
			{protoreflect.Sfixed64Kind, reflect.TypeOf(x.SF64), unsafe.Offsetof(x.SF64)},
			{protoreflect.Fixed64Kind, reflect.TypeOf(x.F64), unsafe.Offsetof(x.F64)},
			{protoreflect.DoubleKind, reflect.TypeOf(x.D), unsafe.Offsetof(x.D)},
		})
	return vmiAllRep
}

// VAllPacked: packed repeated representation (proto3) of the kinds VRepeats does not have.
type VAllPacked struct {
	state         MessageState
	sizeCache     SizeCache
	unknownFields UnknownFields
	I32           []int32   // 1 int32
	E             []int32   // 2 enum
	U32           []uint32  // 3
	I64           []int64   // 4
	S64           []int64   // 5 sint64
	SF32          []int32   // 6 sfixed32
	Fl            []float32 // 7
	SF64          []int64   // 8 sfixed64
	F64           []uint64  // 9 fixed64
	D             []float64 // 10
}

var vmiAllPacked *MessageInfo

func (*VAllPacked) ProtoReflect() protoreflect.Message { return vRefl{mi: vMI_AllPacked()} }
func vMI_AllPacked() *MessageInfo {
	if vmiAllPacked != nil {
		return vmiAllPacked
	}
	vmiAllPacked = &MessageInfo{}
	var x VAllPacked
	vBuildFlat(vmiAllPacked, "v.AllPacked", protoreflect.Proto3, rep, true, false, reflect.TypeOf(&x),
		unsafe.Offsetof(x.sizeCache), unsafe.Offsetof(x.unknownFields), []vFieldSpec{
			{protoreflect.Int32Kind, reflect.TypeOf(x.I32), unsafe.Offsetof(x.I32)},
			{protoreflect.EnumKind, reflect.TypeOf(x.E), unsafe.Offsetof(x.E)},
			{protoreflect.Uint32Kind, reflect.TypeOf(x.U32), unsafe.Offsetof(x.U32)},
			{protoreflect.Int64Kind, reflect.TypeOf(x.I64), unsafe.Offsetof(x.I64)},
			{protoreflect.Sint64Kind, reflect.TypeOf(x.S64), unsafe.Offsetof(x.S64)},
			{protoreflect.Sfixed32Kind, reflect.TypeOf(x.SF32), unsafe.Offsetof(x.SF32)},
			{protoreflect.FloatKind, reflect.TypeOf(x.Fl), unsafe.Offsetof(x.Fl)},
			{protoreflect.Sfixed64Kind, reflect.TypeOf(x.SF64), unsafe.Offsetof(x.SF64)},
			{protoreflect.Fixed64Kind, reflect.TypeOf(x.F64), unsafe.Offsetof(x.F64)},
			{protoreflect.DoubleKind, reflect.TypeOf(x.D), unsafe.Offsetof(x.D)},
		})
	return vmiAllPacked
}

// mOneFieldBytesPacked is mOneFieldBytes with length-delimited payloads of 0..4 (thorough: and 8)
// bytes so that packed fixed32 (thorough: fixed64) lists hold complete elements.
func mOneFieldBytesPacked() []byte {
	tag := nd.Byte()
	nd.Assume(tag < 0x80 && tag >= 8)
	b := []byte{tag}
	switch tag & 7 {
	case 0:
		n := []int{1, 2, 10}[nd.Int(0, 2)]
		v := nd.BytesN(n)
		for i := 0; i < n-1; i++ {
			nd.Assume(v[i] >= 0x80)
		}
		nd.Assume(v[n-1] < 0x80)
		b = append(b, v...)
	case 1:
		b = append(b, nd.BytesN(8)...)
	case 5:
		b = append(b, nd.BytesN(4)...)
	case 2:
		lens := []int{0, 1, 2, 3, 4}
		if nd.Thorough() {
			lens = []int{0, 1, 2, 3, 4, 8} // 8: one complete packed fixed64/double element
		}
		n := lens[nd.Int(0, len(lens)-1)]
		b = append(b, byte(n))
		b = append(b, nd.BytesN(n)...)
	}
	return b
}

func vTypeAll(k int) (*MessageInfo, pointer) {
	switch k {
	case 0:
		return vMI_All2(), pointer{p: unsafe.Pointer(new(VAll2))}
	case 1:
		return vMI_All3(), pointer{p: unsafe.Pointer(new(VAll3))}
	case 2:
		return vMI_AllRep(), pointer{p: unsafe.Pointer(new(VAllRep))}
	default:
		return vMI_AllPacked(), pointer{p: unsafe.Pointer(new(VAllPacked))}
	}
}
