//go:build verif

package impl

// Corpus for the message-level harnesses: mirror message structs laid out like generated
// open-struct-API messages, stub descriptors with concrete attributes, and coder tables built
// by the REAL makeCoderMethods (fieldCoder selection, validation info, dense/ordered tables)
// from the current tree. Only makeStructInfo/makeReflectFuncs (reflection getters) are bypassed.

import (
	"reflect"
	"unsafe"

	"google.golang.org/protobuf/reflect/protoreflect"
)

// ---- stub descriptors ----

type vOneofs struct {
	protoreflect.OneofDescriptors
	list []*vOD
}

func (x vOneofs) Len() int                               { return len(x.list) }
func (x vOneofs) Get(i int) protoreflect.OneofDescriptor { return x.list[i] }

// vOD is a (non-synthetic) oneof of a stub message descriptor.
type vOD struct {
	protoreflect.OneofDescriptor
	parent *vMD
	name   protoreflect.Name
	index  int
	fields *vFields
}

func (o *vOD) Name() protoreflect.Name               { return o.name }
func (o *vOD) FullName() protoreflect.FullName       { return o.parent.name.Append(o.name) }
func (o *vOD) Index() int                            { return o.index }
func (o *vOD) IsSynthetic() bool                     { return false }
func (o *vOD) Fields() protoreflect.FieldDescriptors { return o.fields }

type vNums struct {
	protoreflect.FieldNumbers
	n int
}

func (x vNums) Len() int { return x.n }

type vRanges struct{ protoreflect.FieldRanges }

func (vRanges) Len() int { return 0 }

type vFields struct {
	protoreflect.FieldDescriptors
	list []*vFD
}

func (x *vFields) Len() int                               { return len(x.list) }
func (x *vFields) Get(i int) protoreflect.FieldDescriptor { return x.list[i] }
func (x *vFields) ByNumber(n protoreflect.FieldNumber) protoreflect.FieldDescriptor {
	for _, f := range x.list {
		if f.num == n {
			return f
		}
	}
	return nil
}

type vMD struct {
	protoreflect.MessageDescriptor
	name   protoreflect.FullName
	syntax protoreflect.Syntax
	fields *vFields
	oneofs []*vOD
}

func (m *vMD) FullName() protoreflect.FullName           { return m.name }
func (m *vMD) Name() protoreflect.Name                   { return m.name.Name() }
func (m *vMD) Syntax() protoreflect.Syntax               { return m.syntax }
func (m *vMD) Fields() protoreflect.FieldDescriptors     { return m.fields }
func (m *vMD) Oneofs() protoreflect.OneofDescriptors     { return vOneofs{list: m.oneofs} }
func (m *vMD) ExtensionRanges() protoreflect.FieldRanges { return vRanges{} }
func (m *vMD) IsMapEntry() bool                          { return false }
func (m *vMD) IsPlaceholder() bool                       { return false }
func (m *vMD) RequiredNumbers() protoreflect.FieldNumbers {
	n := 0
	for _, f := range m.fields.list {
		if f.card == protoreflect.Required {
			n++
		}
	}
	return vNums{n: n}
}

type vFD struct {
	protoreflect.FieldDescriptor
	parent   *vMD
	name     protoreflect.Name
	num      protoreflect.FieldNumber
	kind     protoreflect.Kind
	card     protoreflect.Cardinality
	packed   bool
	presence bool
	lazy     bool
	msg      *vMD
	oneof    *vOD
	mapKey   *vFD // non-nil: map field (entry fields key = 1, value = 2)
	mapVal   *vFD
}

func (f *vFD) Number() protoreflect.FieldNumber                   { return f.num }
func (f *vFD) Kind() protoreflect.Kind                            { return f.kind }
func (f *vFD) Cardinality() protoreflect.Cardinality              { return f.card }
func (f *vFD) IsPacked() bool                                     { return f.packed }
func (f *vFD) HasPresence() bool                                  { return f.presence }
func (f *vFD) IsList() bool                                       { return f.card == protoreflect.Repeated && f.mapKey == nil }
func (f *vFD) IsMap() bool                                        { return f.mapKey != nil }
func (f *vFD) MapKey() protoreflect.FieldDescriptor {
	if f.mapKey == nil {
		return nil
	}
	return f.mapKey
}
func (f *vFD) MapValue() protoreflect.FieldDescriptor {
	if f.mapVal == nil {
		return nil
	}
	return f.mapVal
}
func (f *vFD) Default() protoreflect.Value {
	switch f.kind {
	case protoreflect.BoolKind:
		return protoreflect.ValueOfBool(false)
	case protoreflect.Int32Kind, protoreflect.Sint32Kind, protoreflect.Sfixed32Kind:
		return protoreflect.ValueOfInt32(0)
	case protoreflect.Int64Kind, protoreflect.Sint64Kind, protoreflect.Sfixed64Kind:
		return protoreflect.ValueOfInt64(0)
	case protoreflect.Uint32Kind, protoreflect.Fixed32Kind:
		return protoreflect.ValueOfUint32(0)
	case protoreflect.Uint64Kind, protoreflect.Fixed64Kind:
		return protoreflect.ValueOfUint64(0)
	case protoreflect.StringKind:
		return protoreflect.ValueOfString("")
	case protoreflect.BytesKind:
		return protoreflect.ValueOfBytes(nil)
	}
	return protoreflect.Value{}
}
func (f *vFD) IsExtension() bool                                  { return false }
func (f *vFD) IsWeak() bool                                       { return false }
func (f *vFD) IsLazy() bool                                       { return f.lazy }
func (f *vFD) ContainingOneof() protoreflect.OneofDescriptor {
	if f.oneof == nil {
		return nil
	}
	return f.oneof
}
func (f *vFD) ContainingMessage() protoreflect.MessageDescriptor { return f.parent }
func (f *vFD) Syntax() protoreflect.Syntax                        { return f.parent.syntax }
func (f *vFD) Name() protoreflect.Name                            { return f.name }
func (f *vFD) FullName() protoreflect.FullName                    { return f.parent.name.Append(f.name) }
func (f *vFD) Message() protoreflect.MessageDescriptor {
	if f.msg == nil {
		return nil
	}
	return f.msg
}

// vRefl is what ProtoReflect returns for mirror types: just enough for getMessageInfo.
type vRefl struct {
	protoreflect.Message
	mi *MessageInfo
}

func (r vRefl) ProtoMessageInfo() *MessageInfo { return r.mi }

const (
	opt = protoreflect.Optional
	req = protoreflect.Required
	rep = protoreflect.Repeated
)

func vfd(name string, num protoreflect.FieldNumber, kind protoreflect.Kind, card protoreflect.Cardinality, packed, presence bool, msg *vMD) *vFD {
	return &vFD{name: protoreflect.Name(name), num: num, kind: kind, card: card, packed: packed, presence: presence, msg: msg}
}

func vmd(name string, syntax protoreflect.Syntax, fields ...*vFD) *vMD {
	m := &vMD{name: protoreflect.FullName(name), syntax: syntax, fields: &vFields{list: fields}}
	for _, f := range fields {
		f.parent = m
	}
	return m
}

func vsi() structInfo {
	return structInfo{
		sizecacheOffset: invalidOffset, unknownOffset: invalidOffset, extensionOffset: invalidOffset,
		lazyOffset: invalidOffset, presenceOffset: invalidOffset,
		fieldsByNumber:        map[protoreflect.FieldNumber]reflect.StructField{},
		oneofsByName:          map[protoreflect.Name]reflect.StructField{},
		oneofWrappersByType:   map[reflect.Type]protoreflect.FieldNumber{},
		oneofWrappersByNumber: map[protoreflect.FieldNumber]reflect.Type{},
	}
}

func vsf(t reflect.Type, off uintptr) reflect.StructField {
	return reflect.StructField{Type: t, Offset: off}
}

// vfinish runs the real table construction.
func vfinish(mi *MessageInfo, md *vMD, ptrType reflect.Type, si structInfo) {
	mi.Desc = md
	mi.GoReflectType = ptrType
	mi.initDone = 1 // tables are built here, not by the reflection-driven initOnce
	mi.makeCoderMethods(ptrType.Elem(), si)
}

// ---- VChild: small proto2 message used as submessage / group ----

type VChild struct {
	state         MessageState
	sizeCache     SizeCache
	unknownFields UnknownFields
	A             *int32  // optional int32 a = 1
	S             *string // optional string s = 2
}

var vmiChild *MessageInfo
var vmdChild *vMD

func (*VChild) ProtoReflect() protoreflect.Message { return vRefl{mi: vMI_Child()} }
func vMI_Child() *MessageInfo {
	if vmiChild != nil {
		return vmiChild
	}
	vmiChild = &MessageInfo{}
	vmdChild = vmd("v.Child", protoreflect.Proto2,
		vfd("a", 1, protoreflect.Int32Kind, opt, false, true, nil),
		vfd("s", 2, protoreflect.StringKind, opt, false, true, nil))
	var x VChild
	si := vsi()
	si.sizecacheOffset, si.sizecacheType = offset(offsetOfU(unsafe.Offsetof(x.sizeCache))), reflect.TypeOf(x.sizeCache)
	si.unknownOffset, si.unknownType = offset(offsetOfU(unsafe.Offsetof(x.unknownFields))), reflect.TypeOf(x.unknownFields)
	si.fieldsByNumber[1] = vsf(reflect.TypeOf(x.A), unsafe.Offsetof(x.A))
	si.fieldsByNumber[2] = vsf(reflect.TypeOf(x.S), unsafe.Offsetof(x.S))
	vfinish(vmiChild, vmdChild, reflect.TypeOf(&x), si)
	return vmiChild
}

func offsetOfU(u uintptr) offset { return offsetOf(reflect.StructField{Offset: u}) }

// ---- VScalars2: proto2 optional scalars (explicit presence, pointer coders) ----

type VScalars2 struct {
	state         MessageState
	sizeCache     SizeCache
	unknownFields UnknownFields
	B             *bool    // 1 bool
	I32           *int32   // 2 int32
	S32           *int32   // 3 sint32
	U64           *uint64  // 4 uint64
	F32           *uint32  // 5 fixed32
	SF64          *int64   // 6 sfixed64
	Str           *string  // 7 string (proto2: not validated)
	Byt           []byte   // 8 bytes
	Dbl           *float64 // 17 double (two-byte tag, outside the dense table)
}

var vmiScalars2 *MessageInfo

func (*VScalars2) ProtoReflect() protoreflect.Message { return vRefl{mi: vMI_Scalars2()} }
func vMI_Scalars2() *MessageInfo {
	if vmiScalars2 != nil {
		return vmiScalars2
	}
	vmiScalars2 = &MessageInfo{}
	md := vmd("v.Scalars2", protoreflect.Proto2,
		vfd("b", 1, protoreflect.BoolKind, opt, false, true, nil),
		vfd("i32", 2, protoreflect.Int32Kind, opt, false, true, nil),
		vfd("s32", 3, protoreflect.Sint32Kind, opt, false, true, nil),
		vfd("u64", 4, protoreflect.Uint64Kind, opt, false, true, nil),
		vfd("f32", 5, protoreflect.Fixed32Kind, opt, false, true, nil),
		vfd("sf64", 6, protoreflect.Sfixed64Kind, opt, false, true, nil),
		vfd("str", 7, protoreflect.StringKind, opt, false, true, nil),
		vfd("byt", 8, protoreflect.BytesKind, opt, false, true, nil),
		vfd("dbl", 17, protoreflect.DoubleKind, opt, false, true, nil))
	var x VScalars2
	si := vsi()
	si.sizecacheOffset, si.sizecacheType = offsetOfU(unsafe.Offsetof(x.sizeCache)), reflect.TypeOf(x.sizeCache)
	si.unknownOffset, si.unknownType = offsetOfU(unsafe.Offsetof(x.unknownFields)), reflect.TypeOf(x.unknownFields)
	si.fieldsByNumber[1] = vsf(reflect.TypeOf(x.B), unsafe.Offsetof(x.B))
	si.fieldsByNumber[2] = vsf(reflect.TypeOf(x.I32), unsafe.Offsetof(x.I32))
	si.fieldsByNumber[3] = vsf(reflect.TypeOf(x.S32), unsafe.Offsetof(x.S32))
	si.fieldsByNumber[4] = vsf(reflect.TypeOf(x.U64), unsafe.Offsetof(x.U64))
	si.fieldsByNumber[5] = vsf(reflect.TypeOf(x.F32), unsafe.Offsetof(x.F32))
	si.fieldsByNumber[6] = vsf(reflect.TypeOf(x.SF64), unsafe.Offsetof(x.SF64))
	si.fieldsByNumber[7] = vsf(reflect.TypeOf(x.Str), unsafe.Offsetof(x.Str))
	si.fieldsByNumber[8] = vsf(reflect.TypeOf(x.Byt), unsafe.Offsetof(x.Byt))
	si.fieldsByNumber[17] = vsf(reflect.TypeOf(x.Dbl), unsafe.Offsetof(x.Dbl))
	vfinish(vmiScalars2, md, reflect.TypeOf(&x), si)
	return vmiScalars2
}

// ---- VScalars3: proto3 implicit-presence scalars (NoZero coders, validated string) ----

type VScalars3 struct {
	state         MessageState
	sizeCache     SizeCache
	unknownFields UnknownFields
	I32           int32   // 1 int32
	S64           int64   // 2 sint64
	Str           string  // 3 string (UTF-8 validated)
	Byt           []byte  // 4 bytes
	B             bool    // 5 bool
	F             float32 // 6 float
	OptI          *int32  // 7 optional int32 (explicit presence in proto3)
}

var vmiScalars3 *MessageInfo

func (*VScalars3) ProtoReflect() protoreflect.Message { return vRefl{mi: vMI_Scalars3()} }
func vMI_Scalars3() *MessageInfo {
	if vmiScalars3 != nil {
		return vmiScalars3
	}
	vmiScalars3 = &MessageInfo{}
	md := vmd("v.Scalars3", protoreflect.Proto3,
		vfd("i32", 1, protoreflect.Int32Kind, opt, false, false, nil),
		vfd("s64", 2, protoreflect.Sint64Kind, opt, false, false, nil),
		vfd("str", 3, protoreflect.StringKind, opt, false, false, nil),
		vfd("byt", 4, protoreflect.BytesKind, opt, false, false, nil),
		vfd("b", 5, protoreflect.BoolKind, opt, false, false, nil),
		vfd("f", 6, protoreflect.FloatKind, opt, false, false, nil),
		vfd("opt_i", 7, protoreflect.Int32Kind, opt, false, true, nil))
	var x VScalars3
	si := vsi()
	si.sizecacheOffset, si.sizecacheType = offsetOfU(unsafe.Offsetof(x.sizeCache)), reflect.TypeOf(x.sizeCache)
	si.unknownOffset, si.unknownType = offsetOfU(unsafe.Offsetof(x.unknownFields)), reflect.TypeOf(x.unknownFields)
	si.fieldsByNumber[1] = vsf(reflect.TypeOf(x.I32), unsafe.Offsetof(x.I32))
	si.fieldsByNumber[2] = vsf(reflect.TypeOf(x.S64), unsafe.Offsetof(x.S64))
	si.fieldsByNumber[3] = vsf(reflect.TypeOf(x.Str), unsafe.Offsetof(x.Str))
	si.fieldsByNumber[4] = vsf(reflect.TypeOf(x.Byt), unsafe.Offsetof(x.Byt))
	si.fieldsByNumber[5] = vsf(reflect.TypeOf(x.B), unsafe.Offsetof(x.B))
	si.fieldsByNumber[6] = vsf(reflect.TypeOf(x.F), unsafe.Offsetof(x.F))
	si.fieldsByNumber[7] = vsf(reflect.TypeOf(x.OptI), unsafe.Offsetof(x.OptI))
	vfinish(vmiScalars3, md, reflect.TypeOf(&x), si)
	return vmiScalars3
}

// ---- VRepeats: repeated scalars, packed and unpacked, strings and bytes ----

type VRepeats struct {
	state         MessageState
	sizeCache     SizeCache
	unknownFields UnknownFields
	I32           []int32  // 1 repeated int32 (unpacked)
	PS32          []int32  // 2 repeated sint32 [packed]
	PF32          []uint32 // 3 repeated fixed32 [packed]
	Str           []string // 4 repeated string (validated: proto3)
	Byt           [][]byte // 5 repeated bytes
	PU64          []uint64 // 6 repeated uint64 [packed]
	PB            []bool   // 7 repeated bool [packed]
}

var vmiRepeats *MessageInfo

func (*VRepeats) ProtoReflect() protoreflect.Message { return vRefl{mi: vMI_Repeats()} }
func vMI_Repeats() *MessageInfo {
	if vmiRepeats != nil {
		return vmiRepeats
	}
	vmiRepeats = &MessageInfo{}
	md := vmd("v.Repeats", protoreflect.Proto3,
		vfd("i32", 1, protoreflect.Int32Kind, rep, false, false, nil),
		vfd("ps32", 2, protoreflect.Sint32Kind, rep, true, false, nil),
		vfd("pf32", 3, protoreflect.Fixed32Kind, rep, true, false, nil),
		vfd("str", 4, protoreflect.StringKind, rep, false, false, nil),
		vfd("byt", 5, protoreflect.BytesKind, rep, false, false, nil),
		vfd("pu64", 6, protoreflect.Uint64Kind, rep, true, false, nil),
		vfd("pb", 7, protoreflect.BoolKind, rep, true, false, nil))
	var x VRepeats
	si := vsi()
	si.sizecacheOffset, si.sizecacheType = offsetOfU(unsafe.Offsetof(x.sizeCache)), reflect.TypeOf(x.sizeCache)
	si.unknownOffset, si.unknownType = offsetOfU(unsafe.Offsetof(x.unknownFields)), reflect.TypeOf(x.unknownFields)
	si.fieldsByNumber[1] = vsf(reflect.TypeOf(x.I32), unsafe.Offsetof(x.I32))
	si.fieldsByNumber[2] = vsf(reflect.TypeOf(x.PS32), unsafe.Offsetof(x.PS32))
	si.fieldsByNumber[3] = vsf(reflect.TypeOf(x.PF32), unsafe.Offsetof(x.PF32))
	si.fieldsByNumber[4] = vsf(reflect.TypeOf(x.Str), unsafe.Offsetof(x.Str))
	si.fieldsByNumber[5] = vsf(reflect.TypeOf(x.Byt), unsafe.Offsetof(x.Byt))
	si.fieldsByNumber[6] = vsf(reflect.TypeOf(x.PU64), unsafe.Offsetof(x.PU64))
	si.fieldsByNumber[7] = vsf(reflect.TypeOf(x.PB), unsafe.Offsetof(x.PB))
	vfinish(vmiRepeats, md, reflect.TypeOf(&x), si)
	return vmiRepeats
}

// ---- VNests: submessage, repeated submessage, group, repeated group, self recursion ----

type VNests struct {
	state         MessageState
	sizeCache     SizeCache
	unknownFields UnknownFields
	Msg           *VChild   // 1 optional Child msg
	RMsg          []*VChild // 2 repeated Child rmsg
	Grp           *VChild   // 3 optional group Grp (same layout as Child)
	RGrp          []*VChild // 4 repeated group RGrp
	Self          *VNests   // 5 optional Nests self
	I             *int32    // 6 optional int32
}

var vmiNests *MessageInfo

func (*VNests) ProtoReflect() protoreflect.Message { return vRefl{mi: vMI_Nests()} }
func vMI_Nests() *MessageInfo {
	if vmiNests != nil {
		return vmiNests
	}
	vmiNests = &MessageInfo{}
	vMI_Child()
	md := vmd("v.Nests", protoreflect.Proto2)
	md.fields.list = []*vFD{
		vfd("msg", 1, protoreflect.MessageKind, opt, false, true, vmdChild),
		vfd("rmsg", 2, protoreflect.MessageKind, rep, false, false, vmdChild),
		vfd("grp", 3, protoreflect.GroupKind, opt, false, true, vmdChild),
		vfd("rgrp", 4, protoreflect.GroupKind, rep, false, false, vmdChild),
		vfd("self", 5, protoreflect.MessageKind, opt, false, true, md),
		vfd("i", 6, protoreflect.Int32Kind, opt, false, true, nil),
	}
	for _, f := range md.fields.list {
		f.parent = md
	}
	var x VNests
	si := vsi()
	si.sizecacheOffset, si.sizecacheType = offsetOfU(unsafe.Offsetof(x.sizeCache)), reflect.TypeOf(x.sizeCache)
	si.unknownOffset, si.unknownType = offsetOfU(unsafe.Offsetof(x.unknownFields)), reflect.TypeOf(x.unknownFields)
	si.fieldsByNumber[1] = vsf(reflect.TypeOf(x.Msg), unsafe.Offsetof(x.Msg))
	si.fieldsByNumber[2] = vsf(reflect.TypeOf(x.RMsg), unsafe.Offsetof(x.RMsg))
	si.fieldsByNumber[3] = vsf(reflect.TypeOf(x.Grp), unsafe.Offsetof(x.Grp))
	si.fieldsByNumber[4] = vsf(reflect.TypeOf(x.RGrp), unsafe.Offsetof(x.RGrp))
	si.fieldsByNumber[5] = vsf(reflect.TypeOf(x.Self), unsafe.Offsetof(x.Self))
	si.fieldsByNumber[6] = vsf(reflect.TypeOf(x.I), unsafe.Offsetof(x.I))
	vfinish(vmiNests, md, reflect.TypeOf(&x), si)
	return vmiNests
}

// ---- VReq / VReqOuter: required fields, directly and through submessages ----

type VReq struct {
	state         MessageState
	sizeCache     SizeCache
	unknownFields UnknownFields
	R1            *int32 // 1 required int32
	O2            *int32 // 2 optional int32
	R3            *bool  // 3 required bool
}

var vmiReq *MessageInfo
var vmdReq *vMD

func (*VReq) ProtoReflect() protoreflect.Message { return vRefl{mi: vMI_Req()} }
func vMI_Req() *MessageInfo {
	if vmiReq != nil {
		return vmiReq
	}
	vmiReq = &MessageInfo{}
	vmdReq = vmd("v.Req", protoreflect.Proto2,
		vfd("r1", 1, protoreflect.Int32Kind, req, false, true, nil),
		vfd("o2", 2, protoreflect.Int32Kind, opt, false, true, nil),
		vfd("r3", 3, protoreflect.BoolKind, req, false, true, nil))
	var x VReq
	si := vsi()
	si.sizecacheOffset, si.sizecacheType = offsetOfU(unsafe.Offsetof(x.sizeCache)), reflect.TypeOf(x.sizeCache)
	si.unknownOffset, si.unknownType = offsetOfU(unsafe.Offsetof(x.unknownFields)), reflect.TypeOf(x.unknownFields)
	si.fieldsByNumber[1] = vsf(reflect.TypeOf(x.R1), unsafe.Offsetof(x.R1))
	si.fieldsByNumber[2] = vsf(reflect.TypeOf(x.O2), unsafe.Offsetof(x.O2))
	si.fieldsByNumber[3] = vsf(reflect.TypeOf(x.R3), unsafe.Offsetof(x.R3))
	vfinish(vmiReq, vmdReq, reflect.TypeOf(&x), si)
	return vmiReq
}

type VReqOuter struct {
	state         MessageState
	sizeCache     SizeCache
	unknownFields UnknownFields
	M             *VReq   // 1 optional Req
	RM            []*VReq // 2 repeated Req
	G             *VReq   // 3 optional group
	O             *int32  // 4 optional int32
}

var vmiReqOuter *MessageInfo

func (*VReqOuter) ProtoReflect() protoreflect.Message { return vRefl{mi: vMI_ReqOuter()} }
func vMI_ReqOuter() *MessageInfo {
	if vmiReqOuter != nil {
		return vmiReqOuter
	}
	vmiReqOuter = &MessageInfo{}
	vMI_Req()
	md := vmd("v.ReqOuter", protoreflect.Proto2,
		vfd("m", 1, protoreflect.MessageKind, opt, false, true, vmdReq),
		vfd("rm", 2, protoreflect.MessageKind, rep, false, false, vmdReq),
		vfd("g", 3, protoreflect.GroupKind, opt, false, true, vmdReq),
		vfd("o", 4, protoreflect.Int32Kind, opt, false, true, nil))
	var x VReqOuter
	si := vsi()
	si.sizecacheOffset, si.sizecacheType = offsetOfU(unsafe.Offsetof(x.sizeCache)), reflect.TypeOf(x.sizeCache)
	si.unknownOffset, si.unknownType = offsetOfU(unsafe.Offsetof(x.unknownFields)), reflect.TypeOf(x.unknownFields)
	si.fieldsByNumber[1] = vsf(reflect.TypeOf(x.M), unsafe.Offsetof(x.M))
	si.fieldsByNumber[2] = vsf(reflect.TypeOf(x.RM), unsafe.Offsetof(x.RM))
	si.fieldsByNumber[3] = vsf(reflect.TypeOf(x.G), unsafe.Offsetof(x.G))
	si.fieldsByNumber[4] = vsf(reflect.TypeOf(x.O), unsafe.Offsetof(x.O))
	vfinish(vmiReqOuter, md, reflect.TypeOf(&x), si)
	return vmiReqOuter
}

// ---- VEmpty: no known fields (everything is unknown) ----

type VEmpty struct {
	state         MessageState
	sizeCache     SizeCache
	unknownFields UnknownFields
}

var vmiEmpty *MessageInfo

func (*VEmpty) ProtoReflect() protoreflect.Message { return vRefl{mi: vMI_Empty()} }
func vMI_Empty() *MessageInfo {
	if vmiEmpty != nil {
		return vmiEmpty
	}
	vmiEmpty = &MessageInfo{}
	md := vmd("v.Empty", protoreflect.Proto3)
	var x VEmpty
	si := vsi()
	si.sizecacheOffset, si.sizecacheType = offsetOfU(unsafe.Offsetof(x.sizeCache)), reflect.TypeOf(x.sizeCache)
	si.unknownOffset, si.unknownType = offsetOfU(unsafe.Offsetof(x.unknownFields)), reflect.TypeOf(x.unknownFields)
	vfinish(vmiEmpty, md, reflect.TypeOf(&x), si)
	return vmiEmpty
}

// vType selects a corpus type: its tables and a fresh zero message.
func vType(k int) (*MessageInfo, pointer) {
	if k == 30 {
		return vMI_One(), pointer{p: unsafe.Pointer(new(VOne))}
	}
	if k == 31 {
		return vMI_One3(), pointer{p: unsafe.Pointer(new(VOne3))}
	}
	if k == 32 {
		return vMI_Maps(), pointer{p: unsafe.Pointer(new(VMaps))}
	}
	if k >= 20 {
		switch k {
		case 20:
			return vMI_ScalarsO(), pointer{p: unsafe.Pointer(new(VScalarsO))}
		case 21:
			return vMI_ReqO(), pointer{p: unsafe.Pointer(new(VReqO))}
		default:
			return vMI_Node(), pointer{p: unsafe.Pointer(new(VNode))}
		}
	}
	if k >= 10 {
		return vTypeAll(k - 10)
	}
	switch k {
	case 0:
		return vMI_Scalars2(), pointer{p: unsafe.Pointer(new(VScalars2))}
	case 1:
		return vMI_Scalars3(), pointer{p: unsafe.Pointer(new(VScalars3))}
	case 2:
		return vMI_Repeats(), pointer{p: unsafe.Pointer(new(VRepeats))}
	case 3:
		return vMI_Nests(), pointer{p: unsafe.Pointer(new(VNests))}
	case 4:
		return vMI_Req(), pointer{p: unsafe.Pointer(new(VReq))}
	case 5:
		return vMI_ReqOuter(), pointer{p: unsafe.Pointer(new(VReqOuter))}
	default:
		return vMI_Empty(), pointer{p: unsafe.Pointer(new(VEmpty))}
	}
}

const vNumTypes = 7

// ---- VCycA / VCycB: mutually recursive messages with a required field below the cycle ----
//
//	message CycA { optional CycB b = 1; optional Req r = 2; }   message CycB { optional CycA a = 1; }

type VCycA struct {
	state         MessageState
	sizeCache     SizeCache
	unknownFields UnknownFields
	B             *VCycB
	R             *VReq
}

type VCycB struct {
	state         MessageState
	sizeCache     SizeCache
	unknownFields UnknownFields
	A             *VCycA
}

var vmiCycA, vmiCycB *MessageInfo
var vmdCycA, vmdCycB *vMD

func vCycDescs() {
	if vmdCycA != nil {
		return
	}
	vMI_Req()
	vmdCycA = vmd("v.CycA", protoreflect.Proto2)
	vmdCycB = vmd("v.CycB", protoreflect.Proto2)
	vmdCycA.fields.list = []*vFD{
		vfd("b", 1, protoreflect.MessageKind, opt, false, true, vmdCycB),
		vfd("r", 2, protoreflect.MessageKind, opt, false, true, vmdReq),
	}
	vmdCycB.fields.list = []*vFD{vfd("a", 1, protoreflect.MessageKind, opt, false, true, vmdCycA)}
	for _, f := range vmdCycA.fields.list {
		f.parent = vmdCycA
	}
	for _, f := range vmdCycB.fields.list {
		f.parent = vmdCycB
	}
}

func (*VCycA) ProtoReflect() protoreflect.Message { return vRefl{mi: vMI_CycA()} }
func (*VCycB) ProtoReflect() protoreflect.Message { return vRefl{mi: vMI_CycB()} }

func vMI_CycA() *MessageInfo {
	if vmiCycA != nil {
		return vmiCycA
	}
	vmiCycA = &MessageInfo{}
	vCycDescs()
	var x VCycA
	si := vsi()
	si.sizecacheOffset, si.sizecacheType = offsetOfU(unsafe.Offsetof(x.sizeCache)), reflect.TypeOf(x.sizeCache)
	si.unknownOffset, si.unknownType = offsetOfU(unsafe.Offsetof(x.unknownFields)), reflect.TypeOf(x.unknownFields)
	si.fieldsByNumber[1] = vsf(reflect.TypeOf(x.B), unsafe.Offsetof(x.B))
	si.fieldsByNumber[2] = vsf(reflect.TypeOf(x.R), unsafe.Offsetof(x.R))
	vfinish(vmiCycA, vmdCycA, reflect.TypeOf(&x), si)
	return vmiCycA
}

func vMI_CycB() *MessageInfo {
	if vmiCycB != nil {
		return vmiCycB
	}
	vmiCycB = &MessageInfo{}
	vCycDescs()
	var x VCycB
	si := vsi()
	si.sizecacheOffset, si.sizecacheType = offsetOfU(unsafe.Offsetof(x.sizeCache)), reflect.TypeOf(x.sizeCache)
	si.unknownOffset, si.unknownType = offsetOfU(unsafe.Offsetof(x.unknownFields)), reflect.TypeOf(x.unknownFields)
	si.fieldsByNumber[1] = vsf(reflect.TypeOf(x.A), unsafe.Offsetof(x.A))
	vfinish(vmiCycB, vmdCycB, reflect.TypeOf(&x), si)
	return vmiCycB
}

// ---- VBig: 66 required int32 fields (more than the 64 bits of the fast-path required mask) ----

const vBigN = 66

type VBig struct {
	state         MessageState
	sizeCache     SizeCache
	unknownFields UnknownFields
	F             [vBigN]*int32 // required int32 f1..f66 = 1..66
}

var vmiBig *MessageInfo

func (*VBig) ProtoReflect() protoreflect.Message { return vRefl{mi: vMI_Big()} }
func vMI_Big() *MessageInfo {
	if vmiBig != nil {
		return vmiBig
	}
	vmiBig = &MessageInfo{}
	md := vmd("v.Big", protoreflect.Proto2)
	var x VBig
	si := vsi()
	si.sizecacheOffset, si.sizecacheType = offsetOfU(unsafe.Offsetof(x.sizeCache)), reflect.TypeOf(x.sizeCache)
	si.unknownOffset, si.unknownType = offsetOfU(unsafe.Offsetof(x.unknownFields)), reflect.TypeOf(x.unknownFields)
	for i := 1; i <= vBigN; i++ {
		f := vfd("f", protoreflect.FieldNumber(i), protoreflect.Int32Kind, req, false, true, nil)
		f.parent = md
		md.fields.list = append(md.fields.list, f)
		si.fieldsByNumber[protoreflect.FieldNumber(i)] = vsf(reflect.TypeOf(x.F[0]), unsafe.Offsetof(x.F)+uintptr(i-1)*unsafe.Sizeof(x.F[0]))
	}
	vfinish(vmiBig, md, reflect.TypeOf(&x), si)
	return vmiBig
}
