//go:build verif

package impl

// Oneof corpus type and harnesses (family M8). The oneof coder (initOneofFieldCoders) is built
// from reflect.Value closures; it runs on the engine's miniature reflect model
// (NewAt/Elem/IsNil/Set/New/Type on addressable interface and pointer values).
//
//	message One {                       // proto2
//	  optional int32 a = 1;
//	  oneof o { int32 x = 2; string s = 3; Child m = 4; bytes y = 5; sint32 z = 7; }   // x and z share a Go type
//	}
//	message One3 { oneof o { int32 x = 2; string s = 3; Req r = 4; } }   // proto3 file: s is UTF-8 checked;
//	                                                                      // r has a required field

import (
	"reflect"
	"unicode/utf8"
	"unsafe"

	"google.golang.org/protobuf/encoding/protowire"
	"google.golang.org/protobuf/internal/zzverif/nd"
	"google.golang.org/protobuf/reflect/protoreflect"
	"google.golang.org/protobuf/runtime/protoiface"
)

type VOne struct {
	state         MessageState
	sizeCache     SizeCache
	unknownFields UnknownFields
	A             *int32
	O             isVOne_O
}

type isVOne_O interface{ isVOne_O() }
type VOne_X struct{ X int32 }
type VOne_S struct{ S string }
type VOne_M struct{ M *VChild }
type VOne_Y struct{ Y []byte }
type VOne_Z struct{ Z int32 }

func (*VOne_X) isVOne_O() {}
func (*VOne_S) isVOne_O() {}
func (*VOne_M) isVOne_O() {}
func (*VOne_Y) isVOne_O() {}
func (*VOne_Z) isVOne_O() {}

var vmiOne *MessageInfo

func (*VOne) ProtoReflect() protoreflect.Message { return vRefl{mi: vMI_One()} }

func voneof(md *vMD, name string, fields ...*vFD) {
	od := &vOD{parent: md, name: protoreflect.Name(name), index: len(md.oneofs), fields: &vFields{list: fields}}
	for _, f := range fields {
		f.oneof = od
	}
	md.oneofs = append(md.oneofs, od)
}

func vMI_One() *MessageInfo {
	if vmiOne != nil {
		return vmiOne
	}
	vMI_Child()
	vmiOne = &MessageInfo{}
	fx := vfd("x", 2, protoreflect.Int32Kind, opt, false, true, nil)
	fs := vfd("s", 3, protoreflect.StringKind, opt, false, true, nil)
	fm := vfd("m", 4, protoreflect.MessageKind, opt, false, true, vmdChild)
	fy := vfd("y", 5, protoreflect.BytesKind, opt, false, true, nil)
	fz := vfd("z", 7, protoreflect.Sint32Kind, opt, false, true, nil)
	md := vmd("v.One", protoreflect.Proto2,
		vfd("a", 1, protoreflect.Int32Kind, opt, false, true, nil), fx, fs, fm, fy, fz)
	voneof(md, "o", fx, fs, fm, fy, fz)
	var x VOne
	si := vsi()
	si.sizecacheOffset, si.sizecacheType = offsetOfU(unsafe.Offsetof(x.sizeCache)), reflect.TypeOf(x.sizeCache)
	si.unknownOffset, si.unknownType = offsetOfU(unsafe.Offsetof(x.unknownFields)), reflect.TypeOf(x.unknownFields)
	si.fieldsByNumber[1] = vsf(reflect.TypeOf(x.A), unsafe.Offsetof(x.A))
	si.oneofsByName["o"] = vsf(reflect.TypeOf(&x.O).Elem(), unsafe.Offsetof(x.O))
	si.oneofWrappersByNumber[2] = reflect.TypeOf(&VOne_X{}).Elem()
	si.oneofWrappersByNumber[3] = reflect.TypeOf(&VOne_S{}).Elem()
	si.oneofWrappersByNumber[4] = reflect.TypeOf(&VOne_M{}).Elem()
	si.oneofWrappersByNumber[5] = reflect.TypeOf(&VOne_Y{}).Elem()
	si.oneofWrappersByNumber[7] = reflect.TypeOf(&VOne_Z{}).Elem()
	vfinish(vmiOne, md, reflect.TypeOf(&x), si)
	return vmiOne
}

type VOne3 struct {
	state         MessageState
	sizeCache     SizeCache
	unknownFields UnknownFields
	O             isVOne3_O
}

type isVOne3_O interface{ isVOne3_O() }
type VOne3_X struct{ X int32 }
type VOne3_S struct{ S string }
type VOne3_R struct{ R *VReq }

func (*VOne3_X) isVOne3_O() {}
func (*VOne3_S) isVOne3_O() {}
func (*VOne3_R) isVOne3_O() {}

var vmiOne3 *MessageInfo

func (*VOne3) ProtoReflect() protoreflect.Message { return vRefl{mi: vMI_One3()} }

func vMI_One3() *MessageInfo {
	if vmiOne3 != nil {
		return vmiOne3
	}
	vMI_Req()
	vmiOne3 = &MessageInfo{}
	fx := vfd("x", 2, protoreflect.Int32Kind, opt, false, true, nil)
	fs := vfd("s", 3, protoreflect.StringKind, opt, false, true, nil)
	fr := vfd("r", 4, protoreflect.MessageKind, opt, false, true, vmiReq.Desc.(*vMD))
	md := vmd("v.One3", protoreflect.Proto3, fx, fs, fr)
	voneof(md, "o", fx, fs, fr)
	var x VOne3
	si := vsi()
	si.sizecacheOffset, si.sizecacheType = offsetOfU(unsafe.Offsetof(x.sizeCache)), reflect.TypeOf(x.sizeCache)
	si.unknownOffset, si.unknownType = offsetOfU(unsafe.Offsetof(x.unknownFields)), reflect.TypeOf(x.unknownFields)
	si.oneofsByName["o"] = vsf(reflect.TypeOf(&x.O).Elem(), unsafe.Offsetof(x.O))
	si.oneofWrappersByNumber[2] = reflect.TypeOf(&VOne3_X{}).Elem()
	si.oneofWrappersByNumber[3] = reflect.TypeOf(&VOne3_S{}).Elem()
	si.oneofWrappersByNumber[4] = reflect.TypeOf(&VOne3_R{}).Elem()
	vfinish(vmiOne3, md, reflect.TypeOf(&x), si)
	return vmiOne3
}

// mOneRecord builds one record of v.One: which selects the field (0: a, 1: x, 2: s, 3: m, 4: y,
// 5: an unknown varint field 6, 6: z); the payload is symbolic with an exact shape.
// It returns the record and the scalar value / payload it carries.
func mOneRecord(which int) (rec []byte, iv int32, pay []byte) {
	switch which {
	case 0, 1, 5, 6:
		num := []protowire.Number{1, 2, 0, 0, 0, 6, 7}[which]
		v := nd.Byte()
		nd.Assume(v < 0x80)
		if which == 6 {
			return []byte{byte(num<<3) | 0, v}, int32(protowire.DecodeZigZag(uint64(v))), nil
		}
		return []byte{byte(num<<3) | 0, v}, int32(v), nil
	case 2, 4:
		num := protowire.Number(3)
		if which == 4 {
			num = 5
		}
		n := nd.Int(0, 2)
		pay = nd.BytesN(2)[:n]
		rec = append([]byte{byte(num<<3) | 2, byte(n)}, pay...)
		return rec, 0, pay
	default: // m = Child{a: v} or Child{} or Child{s: "c"}
		switch nd.Int(0, 2) {
		case 0:
			return []byte{4<<3 | 2, 0}, 0, nil
		case 1:
			v := nd.Byte()
			nd.Assume(v < 0x80)
			return []byte{4<<3 | 2, 2, 1<<3 | 0, v}, int32(v), []byte{1<<3 | 0, v}
		default:
			c := nd.Byte()
			return []byte{4<<3 | 2, 3, 2<<3 | 2, 1, c}, 0, []byte{2<<3 | 2, 1, c}
		}
	}
}

func mOneOpts() unmarshalOptions {
	return unmarshalOptions{resolver: vResolver{}, depth: protowire.DefaultRecursionLimit}
}

// mOneWhich names the populated member (0 none, else the field number), checking that the
// wrapper is well formed (non-nil wrapper pointer).
func mOneWhich(x *VOne) int {
	switch w := x.O.(type) {
	case nil:
		return 0
	case *VOne_X:
		nd.Assert(w != nil, "wrapper pointer is non-nil")
		return 2
	case *VOne_S:
		nd.Assert(w != nil, "wrapper pointer is non-nil")
		return 3
	case *VOne_M:
		nd.Assert(w != nil, "wrapper pointer is non-nil")
		return 4
	case *VOne_Y:
		nd.Assert(w != nil, "wrapper pointer is non-nil")
		return 5
	case *VOne_Z:
		nd.Assert(w != nil, "wrapper pointer is non-nil")
		return 7
	}
	return -1
}

//verif:props=C12,C03 bounds=v.One;two-records-each-one-of{a,x,s(<=2),m(3-shapes),y(<=2),z,unknown};exact-shape-payloads maxsteps=8000000
func H_M8_oneof_lastwins() {
	w1, w2 := nd.Int(0, 6), nd.Int(0, 6)
	r1, _, _ := mOneRecord(w1)
	r2, v2, p2 := mOneRecord(w2)
	b := append(append([]byte{}, r1...), r2...)
	mi := vMI_One()
	x := new(VOne)
	_, err := mi.unmarshalPointer(b, pointer{p: unsafe.Pointer(x)}, 0, mOneOpts())
	nd.Assert(err == nil, "two well-formed records decode")
	if err != nil {
		return
	}
	nd.Reach("decoded")
	got := mOneWhich(x)
	nd.Assert(got >= 0, "oneof holds one of its wrapper types")
	member := func(w int) int {
		if w >= 1 && w <= 4 {
			return w + 1
		}
		if w == 6 {
			return 7
		}
		return 0
	}
	want := member(w2)
	if want == 0 {
		want = member(w1)
	}
	nd.Assert(got == want, "the last oneof member on the wire is the populated one")
	if member(w2) != 0 {
		nd.Reach("second record is a member")
		switch w := x.O.(type) {
		case *VOne_X:
			nd.Assert(w.X == v2, "int32 member carries the last value")
		case *VOne_Z:
			nd.Assert(w.Z == v2, "sint32 member carries the last value")
		case *VOne_S:
			nd.Assert(mEq([]byte(w.S), p2), "string member carries the last value")
		case *VOne_Y:
			nd.Assert(mEq(w.Y, p2), "bytes member carries the last value")
		case *VOne_M:
			nd.Assert(w.M != nil, "message member is allocated")
			if w.M != nil {
				enc, _ := mCanon(vMI_Child(), pointer{p: unsafe.Pointer(w.M)})
				if member(w1) != 4 {
					nd.Assert(mEq(enc, p2), "message member replaces a different member (no merge with it)")
				}
			}
		}
	}
	// exclusivity as seen by the encoder: exactly one member record in the output
	enc, merr := mCanon(mi, pointer{p: unsafe.Pointer(x)})
	nd.Assert(merr == nil, "marshal succeeds")
	cnt := 0
	for rest := enc; len(rest) > 0; {
		num, _, n := protowire.ConsumeField(rest)
		if n < 0 {
			nd.Assert(false, "marshal output is well formed")
			return
		}
		if (num >= 2 && num <= 5) || num == 7 {
			cnt++
		}
		rest = rest[n:]
	}
	if want == 0 {
		nd.Assert(cnt == 0, "no member populated, none encoded")
	} else {
		nd.Assert(cnt == 1, "exactly one oneof member is encoded")
	}
}

//verif:props=C12,C07 bounds=v.One;same-message-member-twice;child-records-3-shapes maxsteps=8000000
func H_M8_oneof_member_merge() {
	// m then m again: message members merge (last scalar wins inside the child)
	r1, _, p1 := mOneRecord(3)
	r2, _, p2 := mOneRecord(3)
	b := append(append([]byte{}, r1...), r2...)
	mi := vMI_One()
	x := new(VOne)
	_, err := mi.unmarshalPointer(b, pointer{p: unsafe.Pointer(x)}, 0, mOneOpts())
	nd.Assert(err == nil, "decodes")
	w, ok := x.O.(*VOne_M)
	nd.Assert(ok && w != nil && w.M != nil, "member m populated")
	if !ok || w == nil || w.M == nil {
		return
	}
	nd.Reach("merged")
	y := new(VChild)
	cmi := vMI_Child()
	_, cerr := cmi.unmarshalPointer(append(append([]byte{}, p1...), p2...), pointer{p: unsafe.Pointer(y)}, 0, mOneOpts())
	nd.Assert(cerr == nil, "concatenated child payloads decode")
	e1, _ := mCanon(cmi, pointer{p: unsafe.Pointer(w.M)})
	e2, _ := mCanon(cmi, pointer{p: unsafe.Pointer(y)})
	nd.Assert(mEq(e1, e2), "repeated occurrences of the same message member merge like concatenation")
}

//verif:props=C03,C04,C09,C12 bounds=v.One;one-or-two-records;exact-shape-payloads maxsteps=8000000 timeout=60000
func H_M8_oneof_roundtrip() {
	w1, w2 := nd.Int(0, 6), nd.Int(0, 6)
	r1, _, _ := mOneRecord(w1)
	b := append([]byte{}, r1...)
	if nd.Bool() {
		r2, _, _ := mOneRecord(w2)
		b = append(b, r2...)
	}
	mRoundTrip(30, b)
}

//verif:props=C07,C12 bounds=v.One;src-and-dst-one-record-each;exact-shape-payloads maxsteps=8000000
func H_M8_oneof_merge() {
	// Merge(dst, src) == Unmarshal(Marshal(dst) ++ Marshal(src))
	w1, w2 := nd.Int(0, 6), nd.Int(0, 6)
	r1, _, _ := mOneRecord(w1)
	r2, _, _ := mOneRecord(w2)
	mi := vMI_One()
	dst, src, cat := new(VOne), new(VOne), new(VOne)
	_, e1 := mi.unmarshalPointer(r1, pointer{p: unsafe.Pointer(dst)}, 0, mOneOpts())
	_, e2 := mi.unmarshalPointer(r2, pointer{p: unsafe.Pointer(src)}, 0, mOneOpts())
	_, e3 := mi.unmarshalPointer(append(append([]byte{}, r1...), r2...), pointer{p: unsafe.Pointer(cat)}, 0, mOneOpts())
	nd.Assert(e1 == nil && e2 == nil && e3 == nil, "records decode")
	srcBefore, _ := mCanon(mi, pointer{p: unsafe.Pointer(src)})
	mi.mergePointer(pointer{p: unsafe.Pointer(dst)}, pointer{p: unsafe.Pointer(src)}, mergeOptions{})
	nd.Reach("merged")
	a, _ := mCanon(mi, pointer{p: unsafe.Pointer(dst)})
	c, _ := mCanon(mi, pointer{p: unsafe.Pointer(cat)})
	nd.Assert(mEq(a, c), "Merge equals decoding the concatenation")
	srcAfter, _ := mCanon(mi, pointer{p: unsafe.Pointer(src)})
	nd.Assert(mEq(srcBefore, srcAfter), "Merge leaves src unchanged")
	nd.Assert(mOneWhich(dst) >= 0, "dst oneof well formed")
	// C14: no aliasing of a message member between dst and src
	if ws, ok := src.O.(*VOne_M); ok && ws.M != nil {
		if wd, ok := dst.O.(*VOne_M); ok {
			nd.Assert(wd != ws && wd.M != ws.M, "merged message member is a copy, not shared")
		}
	}
	if ws, ok := src.O.(*VOne_Y); ok && len(ws.Y) > 0 {
		if wd, ok := dst.O.(*VOne_Y); ok && len(wd.Y) > 0 {
			nd.Assert(&wd.Y[0] != &ws.Y[0], "merged bytes member is a copy, not shared")
		}
	}
}

//verif:props=C06,C10,C13,C12 bounds=v.One3;one-record:x|s(<=3-bytes)|r(payload<=4-bytes)|unknown;decoder-vs-validator-vs-reference maxsteps=8000000
func H_M8_oneof_validate() {
	var b []byte
	kind := nd.Int(0, 2)
	var pay []byte
	switch kind {
	case 0:
		v := nd.Byte()
		nd.Assume(v < 0x80)
		b = []byte{2<<3 | 0, v}
	case 1:
		n := nd.Int(0, 3)
		pay = nd.BytesN(3)[:n]
		b = append([]byte{3<<3 | 2, byte(n)}, pay...)
	default:
		n := nd.Int(0, 4)
		pay = nd.BytesN(4)[:n]
		b = append([]byte{4<<3 | 2, byte(n)}, pay...)
	}
	mi := vMI_One3()
	x := new(VOne3)
	opts := mOneOpts()
	out, err := mi.unmarshalPointer(b, pointer{p: unsafe.Pointer(x)}, 0, opts)
	vout, st := mi.validate(b, 0, opts)
	if err != nil {
		nd.Reach("rejected")
		nd.Assert(st != ValidationValid, "validator never vouches for input the decoder rejects")
	} else {
		nd.Reach("accepted")
		nd.Assert(st != ValidationInvalid, "validator never rejects input the decoder accepts")
	}
	switch kind {
	case 1:
		// C13: proto3 string member is UTF-8 checked on decode
		nd.Assert((err == nil) == utf8.Valid(pay), "string oneof member accepted iff valid UTF-8")
	case 2:
		if err == nil {
			// C10: required field below a oneof member
			w, ok := x.O.(*VOne3_R)
			nd.Assert(ok && w != nil && w.R != nil, "member r populated")
			if ok && w != nil && w.R != nil {
				complete := w.R.R1 != nil && w.R.R3 != nil
				if out.initialized {
					nd.Assert(complete, "initialized flag implies the required field is set")
				}
				ierr := mi.checkInitializedPointer(pointer{p: unsafe.Pointer(x)})
				nd.Assert((ierr == nil) == complete, "checkInitialized looks below the oneof member")
				if st == ValidationValid && vout.initialized {
					nd.Assert(complete, "validator's initialized flag implies the required fields are set")
				}
				if complete {
					nd.Reach("complete")
				} else {
					nd.Reach("incomplete")
				}
			}
		}
	}
	_ = protoiface.UnmarshalDiscardUnknown
}
