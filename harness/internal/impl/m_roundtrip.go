//go:build verif

package impl

import (
	"unsafe"

	"google.golang.org/protobuf/encoding/protowire"
	"google.golang.org/protobuf/internal/zzverif/nd"
	"google.golang.org/protobuf/runtime/protoiface"
)

func mOpts() unmarshalOptions {
	return unmarshalOptions{resolver: vResolver{}, depth: protowire.DefaultRecursionLimit}
}

func mUnknownLen(mi *MessageInfo, p pointer) int {
	if p.IsNil() {
		return 0
	}
	u := mi.getUnknownBytes(p)
	if u == nil {
		return 0
	}
	return len(*u)
}

// mTreeUnknown sums the unknown-field bytes retained anywhere in the message tree of a corpus
// message (the walker knows the mirror types).
func mTreeUnknown(k int, p pointer) int {
	mi, _ := vType(k)
	n := mUnknownLen(mi, p)
	switch k {
	case 3:
		x := (*VNests)(p.p)
		n += len(childUnknown(x.Msg)) + len(childUnknown(x.Grp))
		for _, c := range x.RMsg {
			n += len(childUnknown(c))
		}
		for _, c := range x.RGrp {
			n += len(childUnknown(c))
		}
		if x.Self != nil {
			n += mTreeUnknown(3, pointer{p: unsafe.Pointer(x.Self)})
		}
	case 5:
		x := (*VReqOuter)(p.p)
		if x.M != nil {
			n += len(x.M.unknownFields)
		}
		if x.G != nil {
			n += len(x.G.unknownFields)
		}
		for _, c := range x.RM {
			n += len(c.unknownFields)
		}
	}
	return n
}

func childUnknown(c *VChild) []byte {
	if c == nil {
		return nil
	}
	return c.unknownFields
}

// mRoundTrip: everything that must hold for a successfully decoded message.
func mRoundTrip(k int, b []byte) {
	mi, p := vType(k)
	_, err := mi.unmarshalPointer(b, p, 0, mOpts())
	nd.Assume(err == nil)
	nd.Reach("decoded")
	// C04: Size == len(Marshal), MarshalAppend keeps the prefix
	size := mi.sizePointer(p, marshalOptions{})
	pre := []byte{0xaa, 0xbb}
	out, merr := mi.marshalAppendPointer(pre, p, marshalOptions{})
	nd.Assert(merr == nil, "marshal succeeds")
	nd.Assert(len(out) == 2+size, "Size equals the length of Marshal output")
	nd.Assert(out[0] == 0xaa && out[1] == 0xbb, "MarshalAppend preserves the prefix")
	enc := out[2:]
	nd.Assert(mi.sizePointer(p, marshalOptions{flags: protoiface.MarshalUseCachedSize}) == size, "cached size equals size")
	canon, cerr := mCanon(mi, p)
	nd.Assert(cerr == nil && mEq(canon, enc), "deterministic and default marshal agree (no maps)")
	nd.Assert(mi.sizePointer(p, marshalOptions{flags: protoiface.MarshalDeterministic}) == len(canon), "Size equals length (deterministic)")
	// C03: round trip
	_, q := vType(k)
	out2, err2 := mi.unmarshalPointer(enc, q, 0, mOpts())
	nd.Assert(err2 == nil && out2.n == len(enc), "encoding decodes")
	if err2 == nil {
		canon2, _ := mCanon(mi, q)
		nd.Assert(mEq(canon2, canon), "round trip reproduces the same canonical encoding")
	}
	// C09: schema evolution through a schema that knows no field
	emi, ep := vType(6)
	_, eerr := emi.unmarshalPointer(b, ep, 0, mOpts())
	nd.Assert(eerr == nil, "a subset schema accepts what the full schema accepts")
	if eerr == nil {
		via, _ := mCanon(emi, ep)
		_, r := vType(k)
		_, rerr := mi.unmarshalPointer(via, r, 0, mOpts())
		nd.Assert(rerr == nil, "re-encoded unknown fields decode with the full schema")
		if rerr == nil {
			canon3, _ := mCanon(mi, r)
			nd.Assert(mEq(canon3, canon), "decoding via a subset schema gives the same message")
		}
	}
	// C09: DiscardUnknown leaves no unknown field anywhere in the tree
	_, d := vType(k)
	o := mOpts()
	o.flags |= protoiface.UnmarshalDiscardUnknown
	_, derr := mi.unmarshalPointer(b, d, 0, o)
	nd.Assert(derr == nil, "DiscardUnknown does not change acceptance")
	if derr == nil {
		nd.Assert(mTreeUnknown(k, d) == 0, "DiscardUnknown retains no unknown field in the tree")
	}
}

//verif:props=C03,C09 bounds=VScalars2;all-byte-strings<=3(quick)/4(thorough) maxsteps=8000000
func H_M2_scalars2() {
	N := 3
	if nd.Thorough() {
		N = 4
	}
	mRoundTrip(0, nd.Bytes(N))
}

//verif:props=C03,C13 bounds=VScalars3;all-byte-strings<=3(quick)/4(thorough) maxsteps=8000000
func H_M2_scalars3() {
	N := 3
	if nd.Thorough() {
		N = 4
	}
	b := nd.Bytes(N)
	mRoundTrip(1, b)
}

//verif:props=C03 bounds=VRepeats;all-byte-strings<=3(quick)/4(thorough) maxsteps=8000000
func H_M2_repeats() {
	N := 3
	if nd.Thorough() {
		N = 4
	}
	mRoundTrip(2, nd.Bytes(N))
}

//verif:props=C03,C09 bounds=VNests;all-byte-strings<=4(quick)/5(thorough) maxsteps=8000000
func H_M2_nests() {
	N := 4
	if nd.Thorough() {
		N = 5
	}
	mRoundTrip(3, nd.Bytes(N))
}

//verif:props=C04,C09 bounds=VReqOuter;all-byte-strings<=4(quick)/5(thorough) maxsteps=8000000
func H_M2_reqouter() {
	N := 4
	if nd.Thorough() {
		N = 5
	}
	mRoundTrip(5, nd.Bytes(N))
}

//verif:props=C03,C04 bounds=VScalars2;tag-byte+complete-payload-of-every-wire-type maxsteps=8000000
func H_M2_field_scalars2() { mRoundTrip(0, mOneFieldBytes(0)) }

//verif:props=C04,C13 bounds=VScalars3;tag-byte+complete-payload-of-every-wire-type maxsteps=8000000
func H_M2_field_scalars3() { mRoundTrip(1, mOneFieldBytes(0)) }

//verif:props=C04 bounds=VRepeats;tag-byte+complete-payload-of-every-wire-type maxsteps=8000000 tier=thorough timeout=60000
func H_M2_field_repeats() { mRoundTrip(2, mOneFieldBytes(0)) }

// H_M2_implicit_zero: an implicit-presence (proto3) scalar holding its zero value is never
// encoded: no record of fields 1..6 in the canonical encoding of a VScalars3 carries a zero
// payload, and a message decoded from zero-valued records marshals to nothing for them.
//
//verif:props=C11 bounds=VScalars3;all-byte-strings<=4(quick)/5(thorough) maxsteps=8000000
func H_M2_implicit_zero() {
	N := 4
	if nd.Thorough() {
		N = 5
	}
	b := nd.Bytes(N)
	mi, p := vType(1)
	_, err := mi.unmarshalPointer(b, p, 0, mOpts())
	nd.Assume(err == nil)
	nd.Reach("decoded")
	x := (*VScalars3)(p.p)
	canon, _ := mCanon(mi, p)
	for r := canon; len(r) > 0; {
		num, typ, n := protowire.ConsumeTag(r)
		nd.Assert(n > 0, "canonical encoding is well formed")
		if n <= 0 {
			return
		}
		r = r[n:]
		m := protowire.ConsumeFieldValue(num, typ, r)
		nd.Assert(m >= 0, "canonical encoding is well formed (value)")
		if m < 0 {
			return
		}
		// only records carrying the field's declared wire type belong to the field; any other wire
		// type is an unknown field, preserved verbatim
		declared := ((num == 1 || num == 2 || num == 5) && typ == protowire.VarintType) ||
			((num == 3 || num == 4) && typ == protowire.BytesType) || (num == 6 && typ == protowire.Fixed32Type)
		if declared {
			nd.Reach("implicit field emitted")
			nonzero := false
			for i := 0; i < m; i++ {
				nz := r[i] != 0
				nonzero = nonzero || nz
			}
			nd.Assert(nonzero, "an implicit-presence field with the zero value is never encoded")
		}
		r = r[m:]
	}
	// presence of the explicit-presence proto3 optional survives: set-to-zero is still emitted
	if x.OptI != nil {
		nd.Reach("explicit optional set")
		found := false
		for r := canon; len(r) > 0; {
			num, typ, n := protowire.ConsumeTag(r)
			r = r[n:]
			m := protowire.ConsumeFieldValue(num, typ, r)
			f := num == 7
			found = found || f
			r = r[m:]
		}
		nd.Assert(found, "explicit-presence field is encoded once set, even to zero")
	}
}

//verif:props=C03,C04 bounds=VAll2;tag-byte+complete-payload-of-every-wire-type maxsteps=8000000
func H_M2_field_all2() { mRoundTrip(10, mOneFieldBytes(0)) }

//verif:props=C03,C04,C11 bounds=VAll3;tag-byte+complete-payload-of-every-wire-type maxsteps=8000000
func H_M2_field_all3() { mRoundTrip(11, mOneFieldBytes(0)) }

//verif:props=C04 bounds=VAllRep;tag-byte+complete-payload(packed-payloads-0..4,8-bytes) maxsteps=8000000 tier=thorough timeout=60000
func H_M2_field_allrep() { mRoundTrip(12, mOneFieldBytesPacked()) }

//verif:props=C04 bounds=VAllPacked;tag-byte+complete-payload(packed-payloads-0..4,8-bytes) maxsteps=8000000 tier=thorough timeout=60000
func H_M2_field_allpacked() { mRoundTrip(13, mOneFieldBytesPacked()) }

// H_M2_unknown_verbatim: a schema that knows no field keeps every record in input order with
// its field number, wire type and payload bytes unchanged (only the tag is re-encoded minimally),
// and Marshal re-emits exactly that.
//
//verif:props=C09 bounds=VEmpty;all-byte-strings<=4(quick)/5(thorough) maxsteps=8000000
func H_M2_unknown_verbatim() {
	N := 4
	if nd.Thorough() {
		N = 5
	}
	b := nd.Bytes(N)
	mi, p := vType(6)
	_, err := mi.unmarshalPointer(b, p, 0, mOpts())
	nd.Assume(err == nil)
	nd.Reach("decoded")
	var want []byte
	for r := b; len(r) > 0; {
		num, typ, n := protowire.ConsumeTag(r)
		if n <= 0 {
			break
		}
		r = r[n:]
		m := protowire.ConsumeFieldValue(num, typ, r)
		if m < 0 {
			break
		}
		want = protowire.AppendTag(want, num, typ)
		want = append(want, r[:m]...)
		r = r[m:]
	}
	x := (*VEmpty)(p.p)
	nd.Assert(mEq(x.unknownFields, want), "unknown fields are kept in order with number, wire type and payload bytes unchanged")
	canon, merr := mCanon(mi, p)
	nd.Assert(merr == nil && mEq(canon, want), "Marshal re-emits the unknown fields unchanged")
}
