//go:build verif

package impl

import (
	"math"
	"unsafe"

	"google.golang.org/protobuf/encoding/protowire"
	"google.golang.org/protobuf/internal/zzverif/nd"
	"google.golang.org/protobuf/runtime/protoiface"
)

func mOpts() unmarshalOptions {
	return unmarshalOptions{resolver: vResolver{}, depth: protowire.DefaultRecursionLimit}
}

func mUnknownLen(mi *MessageInfo, p pointer) int {
	if p.IsNil() {
		return 0
	}
	u := mi.getUnknownBytes(p)
	if u == nil {
		return 0
	}
	return len(*u)
}

// mTreeUnknown sums the unknown-field bytes retained anywhere in the message tree of a corpus
// message (the walker knows the mirror types).
func mTreeUnknown(k int, p pointer) int {
	mi, _ := vType(k)
	n := mUnknownLen(mi, p)
	switch k {
	case 3:
		x := (*VNests)(p.p)
		n += len(childUnknown(x.Msg)) + len(childUnknown(x.Grp))
		for _, c := range x.RMsg {
			n += len(childUnknown(c))
		}
		for _, c := range x.RGrp {
			n += len(childUnknown(c))
		}
		if x.Self != nil {
			n += mTreeUnknown(3, pointer{p: unsafe.Pointer(x.Self)})
		}
	case 5:
		x := (*VReqOuter)(p.p)
		if x.M != nil {
			n += len(x.M.unknownFields)
		}
		if x.G != nil {
			n += len(x.G.unknownFields)
		}
		for _, c := range x.RM {
			n += len(c.unknownFields)
		}
	}
	return n
}

func childUnknown(c *VChild) []byte {
	if c == nil {
		return nil
	}
	return c.unknownFields
}

// mRoundTrip: everything that must hold for a successfully decoded message.
func mRoundTrip(k int, b []byte) {
	mi, p := vType(k)
	_, err := mi.unmarshalPointer(b, p, 0, mOpts())
	nd.Assume(err == nil)
	nd.Reach("decoded")
	// C04: Size == len(Marshal), MarshalAppend keeps the prefix
	size := mi.sizePointer(p, marshalOptions{})
	pre := []byte{0xaa, 0xbb}
	out, merr := mi.marshalAppendPointer(pre, p, marshalOptions{})
	nd.Assert(merr == nil, "marshal succeeds")
	nd.Assert(len(out) == 2+size, "Size equals the length of Marshal output")
	nd.Assert(out[0] == 0xaa && out[1] == 0xbb, "MarshalAppend preserves the prefix")
	enc := out[2:]
	nd.Assert(mi.sizePointer(p, marshalOptions{flags: protoiface.MarshalUseCachedSize}) == size, "cached size equals size")
	canon, cerr := mCanon(mi, p)
	nd.Assert(cerr == nil && mEq(canon, enc), "deterministic and default marshal agree (no maps)")
	nd.Assert(mi.sizePointer(p, marshalOptions{flags: protoiface.MarshalDeterministic}) == len(canon), "Size equals length (deterministic)")
	// C03: round trip
	_, q := vType(k)
	out2, err2 := mi.unmarshalPointer(enc, q, 0, mOpts())
	nd.Assert(err2 == nil && out2.n == len(enc), "encoding decodes")
	if err2 == nil {
		canon2, _ := mCanon(mi, q)
		nd.Assert(mEq(canon2, canon), "round trip reproduces the same canonical encoding")
	}
	// C09: schema evolution through a schema that knows no field
	emi, ep := vType(6)
	_, eerr := emi.unmarshalPointer(b, ep, 0, mOpts())
	nd.Assert(eerr == nil, "a subset schema accepts what the full schema accepts")
	if eerr == nil {
		via, _ := mCanon(emi, ep)
		_, r := vType(k)
		_, rerr := mi.unmarshalPointer(via, r, 0, mOpts())
		nd.Assert(rerr == nil, "re-encoded unknown fields decode with the full schema")
		if rerr == nil {
			canon3, _ := mCanon(mi, r)
			nd.Assert(mEq(canon3, canon), "decoding via a subset schema gives the same message")
		}
	}
	// C09: DiscardUnknown leaves no unknown field anywhere in the tree
	_, d := vType(k)
	o := mOpts()
	o.flags |= protoiface.UnmarshalDiscardUnknown
	_, derr := mi.unmarshalPointer(b, d, 0, o)
	nd.Assert(derr == nil, "DiscardUnknown does not change acceptance")
	if derr == nil {
		nd.Assert(mTreeUnknown(k, d) == 0, "DiscardUnknown retains no unknown field in the tree")
	}
}

//verif:props=C03,C09 bounds=VScalars2;all-byte-strings<=3(quick)/4(thorough) maxsteps=8000000
func H_M2_scalars2() {
	N := 3
	if nd.Thorough() {
		N = 4
	}
	mRoundTrip(0, nd.Bytes(N))
}

//verif:props=C03,C13 bounds=VScalars3;all-byte-strings<=3(quick)/4(thorough) maxsteps=8000000
func H_M2_scalars3() {
	N := 3
	if nd.Thorough() {
		N = 4
	}
	b := nd.Bytes(N)
	mRoundTrip(1, b)
}

//verif:props=C03 bounds=VRepeats;all-byte-strings<=3(quick)/4(thorough) maxsteps=8000000
func H_M2_repeats() {
	N := 3
	if nd.Thorough() {
		N = 4
	}
	mRoundTrip(2, nd.Bytes(N))
}

//verif:props=C03,C09 bounds=VNests;all-byte-strings<=4(quick)/5(thorough) maxsteps=8000000
func H_M2_nests() {
	N := 4
	if nd.Thorough() {
		N = 5
	}
	mRoundTrip(3, nd.Bytes(N))
}

//verif:props=C04,C09 bounds=VReqOuter;all-byte-strings<=4(quick)/5(thorough) maxsteps=8000000
func H_M2_reqouter() {
	N := 4
	if nd.Thorough() {
		N = 5
	}
	mRoundTrip(5, nd.Bytes(N))
}

//verif:props=C03,C04 bounds=VScalars2;tag-byte+complete-payload-of-every-wire-type maxsteps=8000000
func H_M2_field_scalars2() { mRoundTrip(0, mOneFieldBytes(0)) }

//verif:props=C04,C13 bounds=VScalars3;tag-byte+complete-payload-of-every-wire-type maxsteps=8000000
func H_M2_field_scalars3() { mRoundTrip(1, mOneFieldBytes(0)) }

//verif:props=C04 bounds=VRepeats;tag-byte+complete-payload-of-every-wire-type maxsteps=8000000 tier=thorough timeout=60000
func H_M2_field_repeats() { mRoundTrip(2, mOneFieldBytes(0)) }

// H_M2_implicit_zero: an implicit-presence (proto3) scalar holding its zero value is never
// encoded: no record of fields 1..6 in the canonical encoding of a VScalars3 carries a zero
// payload, and a message decoded from zero-valued records marshals to nothing for them.
//
//verif:props=C11 bounds=VScalars3;all-byte-strings<=4(quick)/5(thorough) maxsteps=8000000
func H_M2_implicit_zero() {
	N := 4
	if nd.Thorough() {
		N = 5
	}
	b := nd.Bytes(N)
	mi, p := vType(1)
	_, err := mi.unmarshalPointer(b, p, 0, mOpts())
	nd.Assume(err == nil)
	nd.Reach("decoded")
	x := (*VScalars3)(p.p)
	canon, _ := mCanon(mi, p)
	for r := canon; len(r) > 0; {
		num, typ, n := protowire.ConsumeTag(r)
		nd.Assert(n > 0, "canonical encoding is well formed")
		if n <= 0 {
			return
		}
		r = r[n:]
		m := protowire.ConsumeFieldValue(num, typ, r)
		nd.Assert(m >= 0, "canonical encoding is well formed (value)")
		if m < 0 {
			return
		}
		// only records carrying the field's declared wire type belong to the field; any other wire
		// type is an unknown field, preserved verbatim
		declared := ((num == 1 || num == 2 || num == 5) && typ == protowire.VarintType) ||
			((num == 3 || num == 4) && typ == protowire.BytesType) || (num == 6 && typ == protowire.Fixed32Type)
		if declared {
			nd.Reach("implicit field emitted")
			nonzero := false
			for i := 0; i < m; i++ {
				nz := r[i] != 0
				nonzero = nonzero || nz
			}
			nd.Assert(nonzero, "an implicit-presence field with the zero value is never encoded")
		}
		r = r[m:]
	}
	// presence of the explicit-presence proto3 optional survives: set-to-zero is still emitted
	if x.OptI != nil {
		nd.Reach("explicit optional set")
		found := false
		for r := canon; len(r) > 0; {
			num, typ, n := protowire.ConsumeTag(r)
			r = r[n:]
			m := protowire.ConsumeFieldValue(num, typ, r)
			f := num == 7
			found = found || f
			r = r[m:]
		}
		nd.Assert(found, "explicit-presence field is encoded once set, even to zero")
	}
}

//verif:props=C03,C04 bounds=VAll2;tag-byte+complete-payload-of-every-wire-type maxsteps=8000000
func H_M2_field_all2() { mRoundTrip(10, mOneFieldBytes(0)) }

//verif:props=C03,C04,C11 bounds=VAll3;tag-byte+complete-payload-of-every-wire-type maxsteps=8000000
func H_M2_field_all3() { mRoundTrip(11, mOneFieldBytes(0)) }

//verif:props=C04 bounds=VAllRep;tag-byte+complete-payload(packed-payloads-0..4,8-bytes) maxsteps=8000000 tier=thorough timeout=60000
func H_M2_field_allrep() { mRoundTrip(12, mOneFieldBytesPacked()) }

//verif:props=C04 bounds=VAllPacked;tag-byte+complete-payload(packed-payloads-0..4,8-bytes) maxsteps=8000000 tier=thorough timeout=60000
func H_M2_field_allpacked() { mRoundTrip(13, mOneFieldBytesPacked()) }

// H_M2_unknown_verbatim: a schema that knows no field keeps every record in input order with
// its field number, wire type and payload bytes unchanged (only the tag is re-encoded minimally),
// and Marshal re-emits exactly that.
//
//verif:props=C09 bounds=VEmpty;all-byte-strings<=4(quick)/5(thorough) maxsteps=8000000
func H_M2_unknown_verbatim() {
	N := 4
	if nd.Thorough() {
		N = 5
	}
	b := nd.Bytes(N)
	mi, p := vType(6)
	_, err := mi.unmarshalPointer(b, p, 0, mOpts())
	nd.Assume(err == nil)
	nd.Reach("decoded")
	var want []byte
	for r := b; len(r) > 0; {
		num, typ, n := protowire.ConsumeTag(r)
		if n <= 0 {
			break
		}
		r = r[n:]
		m := protowire.ConsumeFieldValue(num, typ, r)
		if m < 0 {
			break
		}
		want = protowire.AppendTag(want, num, typ)
		want = append(want, r[:m]...)
		r = r[m:]
	}
	x := (*VEmpty)(p.p)
	nd.Assert(mEq(x.unknownFields, want), "unknown fields are kept in order with number, wire type and payload bytes unchanged")
	canon, merr := mCanon(mi, p)
	nd.Assert(merr == nil && mEq(canon, want), "Marshal re-emits the unknown fields unchanged")
}

// H_M2_packed_reference: value-level oracle for the generated slice coders, whose packed and
// unpacked branches each inline their own 1- and 2-byte varint fast paths. A round trip cannot
// see a decoder that misreads an element consistently, so the decoded elements are compared with
// protowire.ConsumeVarint (C01/C02) directly, the packed list with the same elements sent as
// unpacked records, and a minimally encoded int64/sint64 list with its own re-encoding.
//
//verif:props=C03,C06 bounds=VAllPacked;varint-kind-field(1..5);1-2-elements;each-an-exact-shape-varint-of-1|2|3(quick)+5|10(thorough)-bytes maxsteps=8000000 timeout=60000
func H_M2_packed_reference() {
	fld := nd.Int(1, 5)
	cnt := nd.Int(1, 2)
	shapes := []int{1, 2, 3}
	if nd.Thorough() {
		shapes = []int{1, 2, 3, 5, 10}
	}
	var payload, unpacked []byte
	var ref [2]uint64
	minimal := true
	for i := 0; i < cnt; i++ {
		n := shapes[nd.Int(0, len(shapes)-1)]
		v := nd.BytesN(n)
		for j := 0; j < n-1; j++ {
			nd.Assume(v[j] >= 0x80)
		}
		nd.Assume(v[n-1] < 0x80)
		if n == 10 {
			nd.Assume(v[9] <= 1)
		}
		if n > 1 && v[n-1] == 0 {
			minimal = false
		}
		r, rn := protowire.ConsumeVarint(v)
		nd.Assert(rn == n, "reference varint reader consumes the element")
		ref[i] = r
		payload = append(payload, v...)
		unpacked = append(unpacked, byte(fld<<3)|0)
		unpacked = append(unpacked, v...)
	}
	packed := append([]byte{byte(fld<<3) | 2, byte(len(payload))}, payload...)
	mi, p := vType(13)
	_, e1 := mi.unmarshalPointer(packed, p, 0, mOpts())
	_, q := vType(13)
	_, e2 := mi.unmarshalPointer(unpacked, q, 0, mOpts())
	nd.Assert(e1 == nil && e2 == nil, "well-formed packed and unpacked lists decode")
	if e1 != nil || e2 != nil {
		return
	}
	nd.Reach("decoded")
	x := (*VAllPacked)(p.p)
	switch fld {
	case 1:
		nd.Assert(len(x.I32) == cnt, "element count (int32)")
		for i := 0; i < cnt && i < len(x.I32); i++ {
			nd.Assert(x.I32[i] == int32(ref[i]), "packed int32 element equals the reference varint")
		}
	case 2:
		nd.Assert(len(x.E) == cnt, "element count (enum)")
		for i := 0; i < cnt && i < len(x.E); i++ {
			nd.Assert(x.E[i] == int32(ref[i]), "packed enum element equals the reference varint")
		}
	case 3:
		nd.Assert(len(x.U32) == cnt, "element count (uint32)")
		for i := 0; i < cnt && i < len(x.U32); i++ {
			nd.Assert(x.U32[i] == uint32(ref[i]), "packed uint32 element equals the reference varint")
		}
	case 4:
		nd.Assert(len(x.I64) == cnt, "element count (int64)")
		for i := 0; i < cnt && i < len(x.I64); i++ {
			nd.Assert(x.I64[i] == int64(ref[i]), "packed int64 element equals the reference varint")
		}
	default:
		nd.Assert(len(x.S64) == cnt, "element count (sint64)")
		for i := 0; i < cnt && i < len(x.S64); i++ {
			nd.Assert(x.S64[i] == protowire.DecodeZigZag(ref[i]), "packed sint64 element equals the zig-zag decoded reference varint")
		}
	}
	c1, _ := mCanon(mi, p)
	c2, _ := mCanon(mi, q)
	nd.Assert(mEq(c1, c2), "a packed list decodes to the same elements as the same elements sent unpacked")
	if minimal && fld >= 4 {
		nd.Reach("minimal")
		nd.Assert(mEq(c1, packed), "a minimally encoded packed int64/sint64 list re-encodes to itself")
	}
}

// mShapeVarint returns an exact-shape varint of n bytes (n-1 continuation bytes, then a final
// byte) with free payload bits, and the value protowire.ConsumeVarint assigns to it.
func mShapeVarint(n int) ([]byte, uint64) {
	v := nd.BytesN(n)
	for j := 0; j < n-1; j++ {
		nd.Assume(v[j] >= 0x80)
	}
	nd.Assume(v[n-1] < 0x80)
	if n == 10 {
		nd.Assume(v[9] <= 1)
	}
	r, rn := protowire.ConsumeVarint(v)
	nd.Assert(rn == n, "reference varint reader consumes the element")
	return v, r
}

// H_M2_value_reference: the value a varint field holds after decoding equals the value
// protowire.ConsumeVarint (C01) reads, converted as the kind prescribes — for every varint kind in
// the pointer (VAll2), implicit-presence (VAll3) and unpacked-slice (VAllRep) representation,
// each of which has its own generated consume function with its own inlined 1/2-byte fast path.
//
//verif:props=C03,C06 bounds=VAll2|VAll3|VAllRep;one-varint-field;exact-shape-varint-of-1|2|3(quick)+5|10(thorough)-bytes maxsteps=8000000 timeout=60000
func H_M2_value_reference() {
	shapes := []int{1, 2, 3}
	if nd.Thorough() {
		shapes = []int{1, 2, 3, 5, 10}
	}
	v, r := mShapeVarint(shapes[nd.Int(0, len(shapes)-1)])
	switch nd.Int(0, 2) {
	case 0:
		fld := nd.Int(1, 4)
		mi, p := vType(10)
		_, err := mi.unmarshalPointer(append([]byte{byte(fld << 3)}, v...), p, 0, mOpts())
		nd.Assert(err == nil, "one varint field decodes (pointer representation)")
		if err != nil {
			return
		}
		nd.Reach("pointer")
		x := (*VAll2)(p.p)
		switch fld {
		case 1:
			nd.Assert(x.E != nil && *x.E == int32(r), "enum value equals the reference varint")
		case 2:
			nd.Assert(x.U32 != nil && *x.U32 == uint32(r), "uint32 value equals the reference varint")
		case 3:
			nd.Assert(x.I64 != nil && *x.I64 == int64(r), "int64 value equals the reference varint")
		default:
			nd.Assert(x.S64 != nil && *x.S64 == protowire.DecodeZigZag(r), "sint64 value equals the zig-zag decoded reference varint")
		}
	case 1:
		fld := nd.Int(1, 5)
		mi, p := vType(11)
		_, err := mi.unmarshalPointer(append([]byte{byte(fld << 3)}, v...), p, 0, mOpts())
		nd.Assert(err == nil, "one varint field decodes (implicit presence)")
		if err != nil {
			return
		}
		nd.Reach("implicit")
		x := (*VAll3)(p.p)
		switch fld {
		case 1:
			nd.Assert(x.E == int32(r), "enum value equals the reference varint (implicit)")
		case 2:
			nd.Assert(x.U32 == uint32(r), "uint32 value equals the reference varint (implicit)")
		case 3:
			nd.Assert(x.I64 == int64(r), "int64 value equals the reference varint (implicit)")
		case 4:
			nd.Assert(x.U64 == r, "uint64 value equals the reference varint (implicit)")
		default:
			nd.Assert(x.S32 == int32(protowire.DecodeZigZag(r&0xffffffff)), "sint32 value equals the zig-zag decoded reference varint (implicit)")
		}
	default:
		fld := nd.Int(1, 7)
		mi, p := vType(12)
		_, err := mi.unmarshalPointer(append([]byte{byte(fld << 3)}, v...), p, 0, mOpts())
		nd.Assert(err == nil, "one varint record decodes (unpacked list)")
		if err != nil {
			return
		}
		nd.Reach("slice")
		x := (*VAllRep)(p.p)
		switch fld {
		case 1:
			nd.Assert(len(x.B) == 1 && x.B[0] == (r != 0), "bool element equals the reference varint")
		case 2:
			nd.Assert(len(x.E) == 1 && x.E[0] == int32(r), "enum element equals the reference varint")
		case 3:
			nd.Assert(len(x.S32) == 1 && x.S32[0] == int32(protowire.DecodeZigZag(r&0xffffffff)), "sint32 element equals the zig-zag decoded reference varint")
		case 4:
			nd.Assert(len(x.U32) == 1 && x.U32[0] == uint32(r), "uint32 element equals the reference varint")
		case 5:
			nd.Assert(len(x.I64) == 1 && x.I64[0] == int64(r), "int64 element equals the reference varint")
		case 6:
			nd.Assert(len(x.S64) == 1 && x.S64[0] == protowire.DecodeZigZag(r), "sint64 element equals the zig-zag decoded reference varint")
		default:
			nd.Assert(len(x.U64) == 1 && x.U64[0] == r, "uint64 element equals the reference varint")
		}
	}
}

// H_M2_encode_reference: encoder-side value oracle. One field of a message built directly in Go
// (not by decoding) holds a free value; Marshal must produce exactly tag ++ reference encoding
// (protowire.AppendVarint/AppendFixed32/AppendFixed64, zig-zag where the kind says so), and
// Size must be its length. Together with H_M2_value_reference this pins both directions to
// protowire, so a consistent change to a generated encoder/decoder pair cannot hide in a round trip.
//
//verif:props=C03,C04 bounds=VAll3(implicit)|VAll2(pointer)|VAllRep(one-element-list);one-field;free-32/64-bit-value maxsteps=8000000 timeout=60000
func H_M2_encode_reference() {
	var want []byte
	var mi *MessageInfo
	var p pointer
	switch nd.Int(0, 2) {
	case 0:
		x := new(VAll3)
		mi, p = vMI_All3(), pointer{p: unsafe.Pointer(x)}
		switch nd.Int(1, 10) {
		case 1:
			v := nd.Int32()
			nd.Assume(v != 0)
			x.E = v
			want = protowire.AppendVarint([]byte{1 << 3}, uint64(int64(v)))
		case 2:
			v := nd.Uint32()
			nd.Assume(v != 0)
			x.U32 = v
			want = protowire.AppendVarint([]byte{2 << 3}, uint64(v))
		case 3:
			v := nd.Int64()
			nd.Assume(v != 0)
			x.I64 = v
			want = protowire.AppendVarint([]byte{3 << 3}, uint64(v))
		case 4:
			v := nd.Uint64()
			nd.Assume(v != 0)
			x.U64 = v
			want = protowire.AppendVarint([]byte{4 << 3}, v)
		case 5:
			v := nd.Int32()
			nd.Assume(v != 0)
			x.S32 = v
			want = protowire.AppendVarint([]byte{5 << 3}, protowire.EncodeZigZag(int64(v)))
		case 6:
			v := nd.Uint32()
			nd.Assume(v != 0)
			x.F32 = v
			want = protowire.AppendFixed32([]byte{6<<3 | 5}, v)
		case 7:
			v := nd.Uint64()
			nd.Assume(v != 0)
			x.F64 = v
			want = protowire.AppendFixed64([]byte{7<<3 | 1}, v)
		case 8:
			v := nd.Int32()
			nd.Assume(v != 0)
			x.SF32 = v
			want = protowire.AppendFixed32([]byte{8<<3 | 5}, uint32(v))
		case 9:
			v := nd.Int64()
			nd.Assume(v != 0)
			x.SF64 = v
			want = protowire.AppendFixed64([]byte{9<<3 | 1}, uint64(v))
		default:
			bits := nd.Uint64()
			nd.Assume(bits != 0)
			x.D = math.Float64frombits(bits)
			want = protowire.AppendFixed64([]byte{10<<3 | 1}, bits)
		}
		nd.Reach("implicit")
	case 1:
		x := new(VAll2)
		mi, p = vMI_All2(), pointer{p: unsafe.Pointer(x)}
		switch nd.Int(1, 6) {
		case 1:
			v := nd.Int32()
			x.E = &v
			want = protowire.AppendVarint([]byte{1 << 3}, uint64(int64(v)))
		case 2:
			v := nd.Uint32()
			x.U32 = &v
			want = protowire.AppendVarint([]byte{2 << 3}, uint64(v))
		case 3:
			v := nd.Int64()
			x.I64 = &v
			want = protowire.AppendVarint([]byte{3 << 3}, uint64(v))
		case 4:
			v := nd.Int64()
			x.S64 = &v
			want = protowire.AppendVarint([]byte{4 << 3}, protowire.EncodeZigZag(v))
		case 5:
			v := nd.Uint64()
			x.F64 = &v
			want = protowire.AppendFixed64([]byte{5<<3 | 1}, v)
		default:
			v := nd.Int32()
			x.SF32 = &v
			want = protowire.AppendFixed32([]byte{6<<3 | 5}, uint32(v))
		}
		nd.Reach("pointer")
	default:
		x := new(VAllRep)
		mi, p = vMI_AllRep(), pointer{p: unsafe.Pointer(x)}
		switch nd.Int(1, 6) {
		case 1:
			v := nd.Bool()
			x.B = []bool{v}
			want = []byte{1 << 3, 0}
			if v {
				want[1] = 1
			}
		case 2:
			v := nd.Int32()
			x.S32 = []int32{v}
			want = protowire.AppendVarint([]byte{3 << 3}, protowire.EncodeZigZag(int64(v)))
		case 3:
			v := nd.Int64()
			x.I64 = []int64{v}
			want = protowire.AppendVarint([]byte{5 << 3}, uint64(v))
		case 4:
			v := nd.Int64()
			x.S64 = []int64{v}
			want = protowire.AppendVarint([]byte{6 << 3}, protowire.EncodeZigZag(v))
		case 5:
			v := nd.Uint32()
			x.F32 = []uint32{v}
			want = protowire.AppendFixed32([]byte{9<<3 | 5}, v)
		default:
			v := nd.Int64()
			x.SF64 = []int64{v}
			want = protowire.AppendFixed64([]byte{11<<3 | 1}, uint64(v))
		}
		nd.Reach("slice")
	}
	got, err := mi.marshalAppendPointer(nil, p, marshalOptions{})
	nd.Assert(err == nil, "marshal succeeds")
	nd.Assert(mEq(got, want), "Marshal emits tag ++ reference encoding of the field's value")
	nd.Assert(mi.sizePointer(p, marshalOptions{}) == len(want), "Size equals the length of the reference encoding")
}
