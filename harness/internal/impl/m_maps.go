//go:build verif

package impl

// Map corpus type and harnesses (family M9). The map coder (codec_map.go) and the converters
// (convert.go) are closures over reflect.Value map and scalar operations; they run on the
// engine's reflect model (ValueOf/Convert/Int/String/Len/MakeMap/SetMapIndex/MapIndex/MapKeys/
// MapRange). The engine's maps iterate in insertion order: one of the orders Go may choose.
//
//	message Maps {                      // proto3
//	  map<int64, int32>   m1 = 1;
//	  map<string, string> m2 = 2;       // key and value UTF-8 checked
//	  map<int32, Child>   m3 = 3;
//	  map<string, Child>  m4 = 4;       // key UTF-8 checked on the message-valued path
//	}

import (
	"reflect"
	"unicode/utf8"
	"unsafe"

	"google.golang.org/protobuf/encoding/protowire"
	"google.golang.org/protobuf/internal/zzverif/nd"
	"google.golang.org/protobuf/reflect/protoreflect"
	"google.golang.org/protobuf/runtime/protoiface"
)

type VMaps struct {
	state         MessageState
	sizeCache     SizeCache
	unknownFields UnknownFields
	M1            map[int64]int32
	M2            map[string]string
	M3            map[int32]*VChild
	M4            map[string]*VChild
}

var vmiMaps *MessageInfo

func (*VMaps) ProtoReflect() protoreflect.Message { return vRefl{mi: vMI_Maps()} }

func vmapfd(name string, num protoreflect.FieldNumber, syntax protoreflect.Syntax, kk, vk protoreflect.Kind, vmsg *vMD) *vFD {
	k := vfd("key", 1, kk, opt, false, false, nil)
	v := vfd("value", 2, vk, opt, false, vmsg != nil, vmsg)
	vmd("v.Maps."+name+"Entry", syntax, k, v)
	f := vfd(name, num, protoreflect.MessageKind, rep, false, false, nil)
	f.mapKey, f.mapVal = k, v
	return f
}

func vMI_Maps() *MessageInfo {
	if vmiMaps != nil {
		return vmiMaps
	}
	vMI_Child()
	vmiMaps = &MessageInfo{}
	md := vmd("v.Maps", protoreflect.Proto3,
		vmapfd("m1", 1, protoreflect.Proto3, protoreflect.Int64Kind, protoreflect.Int32Kind, nil),
		vmapfd("m2", 2, protoreflect.Proto3, protoreflect.StringKind, protoreflect.StringKind, nil),
		vmapfd("m3", 3, protoreflect.Proto3, protoreflect.Int32Kind, protoreflect.MessageKind, vmdChild),
		vmapfd("m4", 4, protoreflect.Proto3, protoreflect.StringKind, protoreflect.MessageKind, vmdChild))
	var x VMaps
	si := vsi()
	si.sizecacheOffset, si.sizecacheType = offsetOfU(unsafe.Offsetof(x.sizeCache)), reflect.TypeOf(x.sizeCache)
	si.unknownOffset, si.unknownType = offsetOfU(unsafe.Offsetof(x.unknownFields)), reflect.TypeOf(x.unknownFields)
	si.fieldsByNumber[1] = vsf(reflect.TypeOf(x.M1), unsafe.Offsetof(x.M1))
	si.fieldsByNumber[2] = vsf(reflect.TypeOf(x.M2), unsafe.Offsetof(x.M2))
	si.fieldsByNumber[3] = vsf(reflect.TypeOf(x.M3), unsafe.Offsetof(x.M3))
	si.fieldsByNumber[4] = vsf(reflect.TypeOf(x.M4), unsafe.Offsetof(x.M4))
	vfinish(vmiMaps, md, reflect.TypeOf(&x), si)
	return vmiMaps
}

// mMapEntry builds one map-field record for field fld (1..3) from exact-shape parts: an optional
// key record, an optional value record (either order when both are present).
func mMapEntry(fld int) (rec []byte, key uint64, skey []byte, val []byte) {
	var kr, vr []byte
	hasK, hasV := nd.Bool(), nd.Bool()
	if hasK {
		switch fld {
		case 1:
			kb, k := mShapeVarint([]int{1, 2}[nd.Int(0, 1)])
			kr, key = append([]byte{1 << 3}, kb...), k
		case 3:
			k := nd.Byte()
			nd.Assume(k < 0x80)
			kr, key = []byte{1 << 3, k}, uint64(k)
		default:
			n := nd.Int(0, 2)
			skey = nd.BytesN(2)[:n]
			kr = append([]byte{1<<3 | 2, byte(n)}, skey...)
		}
	}
	if hasV {
		switch fld {
		case 1:
			v := nd.Byte()
			nd.Assume(v < 0x80)
			vr, val = []byte{2 << 3, v}, []byte{v}
		case 2:
			n := nd.Int(0, 2)
			val = nd.BytesN(2)[:n]
			vr = append([]byte{2<<3 | 2, byte(n)}, val...)
		default:
			if nd.Bool() {
				a := nd.Byte()
				nd.Assume(a < 0x80)
				val = []byte{1 << 3, a}
			}
			vr = append([]byte{2<<3 | 2, byte(len(val))}, val...)
		}
	}
	body := append(append([]byte{}, kr...), vr...)
	if hasK && hasV && nd.Bool() {
		body = append(append([]byte{}, vr...), kr...)
	}
	rec = append([]byte{byte(fld<<3) | 2, byte(len(body))}, body...)
	return rec, key, skey, val
}

func mMapsOpts() unmarshalOptions {
	return unmarshalOptions{resolver: vResolver{}, depth: protowire.DefaultRecursionLimit}
}

//verif:props=C03,C04,C13,C06 bounds=v.Maps;one-entry-record;field-1..4;key/value-optional-either-order;exact-shape-payloads maxsteps=8000000 timeout=60000
func H_M9_map_entry() {
	fld := nd.Int(1, 4)
	rec, key, skey, val := mMapEntry(fld)
	mi := vMI_Maps()
	x := new(VMaps)
	p := pointer{p: unsafe.Pointer(x)}
	opts := mMapsOpts()
	_, err := mi.unmarshalPointer(rec, p, 0, opts)
	_, st := mi.validate(rec, 0, opts)
	if fld == 4 {
		nd.Assert((err == nil) == utf8.Valid(skey), "string-keyed message map entry accepted iff the key is valid UTF-8")
	} else if fld == 2 {
		ok := utf8.Valid(skey) && utf8.Valid(val)
		nd.Assert((err == nil) == ok, "string map entry accepted iff key and value are valid UTF-8")
	} else {
		nd.Assert(err == nil, "well-formed map entry decodes")
	}
	if err != nil {
		nd.Reach("rejected")
		nd.Assert(st != ValidationValid, "validator never vouches for a rejected map entry")
		return
	}
	nd.Reach("accepted")
	nd.Assert(st != ValidationInvalid, "validator never rejects an accepted map entry")
	switch fld {
	case 1:
		v, ok := x.M1[int64(key)]
		nd.Assert(len(x.M1) == 1 && ok, "entry stored under the reference key (absent key = 0)")
		want := int32(0)
		if len(val) == 1 {
			want = int32(val[0])
		}
		nd.Assert(v == want, "entry holds the value (absent value = 0)")
	case 2:
		v, ok := x.M2[string(skey)]
		nd.Assert(len(x.M2) == 1 && ok, "entry stored under the key bytes (absent key = empty)")
		nd.Assert(mEq([]byte(v), val), "entry holds the value bytes")
	case 3:
		v, ok := x.M3[int32(key)]
		nd.Assert(len(x.M3) == 1 && ok && v != nil, "message entry stored under the key with a non-nil value")
	default:
		v, ok := x.M4[string(skey)]
		nd.Assert(len(x.M4) == 1 && ok && v != nil, "message entry stored under the string key with a non-nil value")
	}
	// C04 / C03: size, prefix, round trip
	size := mi.sizePointer(p, marshalOptions{})
	out, merr := mi.marshalAppendPointer([]byte{0xaa}, p, marshalOptions{})
	nd.Assert(merr == nil && len(out) == 1+size && out[0] == 0xaa, "Size equals Marshal length and the prefix is kept (map)")
	canon, cerr := mi.marshalAppendPointer(nil, p, marshalOptions{flags: protoiface.MarshalDeterministic})
	nd.Assert(cerr == nil && mEq(canon, out[1:]), "single-entry map: deterministic and default marshal agree")
	y := new(VMaps)
	_, err2 := mi.unmarshalPointer(canon, pointer{p: unsafe.Pointer(y)}, 0, opts)
	nd.Assert(err2 == nil, "marshalled map decodes")
	canon2, _ := mi.marshalAppendPointer(nil, pointer{p: unsafe.Pointer(y)}, marshalOptions{flags: protoiface.MarshalDeterministic})
	nd.Assert(mEq(canon, canon2), "map round trip reproduces the deterministic encoding")
}

//verif:props=C05,C07,C03 bounds=v.Maps.m1;two-entries;keys-free-int64(2-shapes:1-byte|10-byte-varint);both-arrival-orders maxsteps=8000000 timeout=60000
func H_M9_map_deterministic() {
	// the same two entries in both arrival orders: identical deterministic bytes, keys ascending
	mk := func() ([]byte, uint64) {
		kb, k := mShapeVarint([]int{1, 10}[nd.Int(0, 1)])
		return kb, k
	}
	k1b, k1 := mk()
	k2b, k2 := mk()
	nd.Assume(k1 != k2)
	e := func(kb []byte, v byte) []byte {
		body := append(append([]byte{1 << 3}, kb...), 2<<3, v)
		return append([]byte{1<<3 | 2, byte(len(body))}, body...)
	}
	v1, v2 := nd.Byte(), nd.Byte()
	nd.Assume(v1 < 0x80 && v2 < 0x80)
	ab := append(e(k1b, v1), e(k2b, v2)...)
	ba := append(e(k2b, v2), e(k1b, v1)...)
	mi := vMI_Maps()
	x, y := new(VMaps), new(VMaps)
	_, e1 := mi.unmarshalPointer(ab, pointer{p: unsafe.Pointer(x)}, 0, mMapsOpts())
	_, e2 := mi.unmarshalPointer(ba, pointer{p: unsafe.Pointer(y)}, 0, mMapsOpts())
	nd.Assert(e1 == nil && e2 == nil && len(x.M1) == 2 && len(y.M1) == 2, "two distinct keys give two entries")
	det := marshalOptions{flags: protoiface.MarshalDeterministic}
	cx, _ := mi.marshalAppendPointer(nil, pointer{p: unsafe.Pointer(x)}, det)
	cy, _ := mi.marshalAppendPointer(nil, pointer{p: unsafe.Pointer(y)}, det)
	nd.Reach("marshalled")
	nd.Assert(mEq(cx, cy), "deterministic marshal does not depend on insertion order")
	// keys ascending as signed 64-bit integers
	_, _, n0 := protowire.ConsumeTag(cx)
	body, _ := protowire.ConsumeBytes(cx[n0:])
	_, _, n1 := protowire.ConsumeTag(body)
	first, _ := protowire.ConsumeVarint(body[n1:])
	lo := k1
	if int64(k2) < int64(k1) {
		lo = k2
	}
	nd.Assert(first == lo, "deterministic marshal emits the smaller signed key first")
	nd.Assert(mi.sizePointer(pointer{p: unsafe.Pointer(x)}, det) == len(cx), "Size equals length (deterministic, two entries)")
	// C07: merging the single-entry messages equals decoding the concatenation
	a, b := new(VMaps), new(VMaps)
	mi.unmarshalPointer(e(k1b, v1), pointer{p: unsafe.Pointer(a)}, 0, mMapsOpts())
	mi.unmarshalPointer(e(k2b, v2), pointer{p: unsafe.Pointer(b)}, 0, mMapsOpts())
	mi.mergePointer(pointer{p: unsafe.Pointer(a)}, pointer{p: unsafe.Pointer(b)}, mergeOptions{})
	ca, _ := mi.marshalAppendPointer(nil, pointer{p: unsafe.Pointer(a)}, det)
	nd.Assert(mEq(ca, cx), "Merge of map fields equals decoding the concatenation")
}

// H_M9_map_built: maps built directly in Go, including a nil message value (which Marshal emits
// as an empty message): Size equals the length of Marshal, with and without Deterministic.
//
//verif:props=C04 bounds=v.Maps.m3|m4;one-or-two-entries-built-in-Go;values-nil|empty|a-set;first-key-free-int32;second-key-and-child-value-one-byte(quick)/free-int32(thorough) maxsteps=8000000 timeout=60000
func H_M9_map_built() {
	x := new(VMaps)
	mkv := func() *VChild {
		switch nd.Int(0, 2) {
		case 0:
			return nil
		case 1:
			return new(VChild)
		}
		a := int32(nd.Byte())
		if nd.Thorough() {
			a = nd.Int32()
		}
		return &VChild{A: &a}
	}
	if nd.Bool() {
		k1, k2 := nd.Int32(), int32(nd.Byte())
		if nd.Thorough() {
			k2 = nd.Int32()
		}
		x.M3 = map[int32]*VChild{k1: mkv()}
		if nd.Bool() {
			nd.Assume(k1 != k2)
			x.M3[k2] = mkv()
		}
	} else {
		k := nd.String(1)
		nd.Assume(utf8.ValidString(k)) // Marshal refuses invalid UTF-8 in a proto3 string key (C13)
		x.M4 = map[string]*VChild{k: mkv()}
	}
	mi := vMI_Maps()
	p := pointer{p: unsafe.Pointer(x)}
	var fl protoiface.MarshalInputFlags
	if nd.Bool() {
		fl = protoiface.MarshalDeterministic
	}
	size := mi.sizePointer(p, marshalOptions{flags: fl})
	out, err := mi.marshalAppendPointer(nil, p, marshalOptions{flags: fl})
	nd.Reach("marshalled")
	nd.Assert(err == nil, "marshal of a built map succeeds")
	nd.Assert(len(out) == size, "Size equals the length of Marshal output (map with possibly nil message values)")
	y := new(VMaps)
	_, derr := mi.unmarshalPointer(out, pointer{p: unsafe.Pointer(y)}, 0, mMapsOpts())
	nd.Assert(derr == nil && len(y.M3) == len(x.M3) && len(y.M4) == len(x.M4), "the encoding decodes to a map with the same number of entries")
}

// H_M4_oneof_map_alias: decoded oneof members (string, bytes, message) and map keys/values
// (string, message) do not alias the input buffer.
//
//verif:props=C14 bounds=v.One:one-record(any-member)|v.Maps:one-entry-record(field-1..4);exact-shape-payloads;input-overwritten-after-decode maxsteps=8000000 timeout=60000
func H_M4_oneof_map_alias() {
	if nd.Bool() {
		rec, _, _ := mOneRecord(nd.Int(0, 6))
		mAlias(30, rec)
	} else {
		rec, _, _, _ := mMapEntry(nd.Int(1, 4))
		mAlias(32, rec)
	}
}

// H_M9_map_lengths: length-prefix boundaries of map entries. One entry built in Go whose value
// (a string, or a Child holding a string) has length L around the 1-byte/2-byte varint boundary
// of the entry and value length prefixes (content is irrelevant and concrete): Size equals the
// length of Marshal, and the output decodes back to the same message.
//
//verif:props=C04,C03 bounds=v.Maps.m2|m3|m4;one-entry-built-in-Go;value-length-118..133(quick)/100..140+16370..16390(thorough);concrete-content maxsteps=20000000 timeout=60000
func H_M9_map_lengths() {
	L := nd.Int(118, 133)
	if nd.Thorough() {
		if nd.Bool() {
			L = nd.Int(100, 140)
		} else {
			L = nd.Int(16370, 16390)
		}
	}
	pay := string(make([]byte, L))
	x := new(VMaps)
	switch nd.Int(0, 2) {
	case 0:
		x.M2 = map[string]string{"k": pay}
	case 1:
		x.M3 = map[int32]*VChild{1: {S: &pay}}
	default:
		x.M4 = map[string]*VChild{"k": {S: &pay}}
	}
	var fl protoiface.MarshalInputFlags
	if nd.Bool() {
		fl = protoiface.MarshalDeterministic
	}
	mi := vMI_Maps()
	p := pointer{p: unsafe.Pointer(x)}
	size := mi.sizePointer(p, marshalOptions{flags: fl})
	out, err := mi.marshalAppendPointer(nil, p, marshalOptions{flags: fl})
	nd.Reach("marshalled")
	nd.Assert(err == nil, "marshal succeeds")
	nd.Assert(len(out) == size, "Size equals the length of Marshal output across the length-prefix boundary")
	y := new(VMaps)
	o, derr := mi.unmarshalPointer(out, pointer{p: unsafe.Pointer(y)}, 0, mMapsOpts())
	nd.Assert(derr == nil && o.n == len(out), "the encoding of a long map entry decodes")
	if derr == nil {
		det := marshalOptions{flags: protoiface.MarshalDeterministic}
		c1, _ := mi.marshalAppendPointer(nil, p, det)
		c2, _ := mi.marshalAppendPointer(nil, pointer{p: unsafe.Pointer(y)}, det)
		nd.Assert(mEq(c1, c2), "long map entry round trips")
	}
}

// H_M9_sizecache: the proto.Marshal sequence (Size, then Marshal with UseCachedSize) on messages
// whose children sit in a map value or in a oneof member, with arbitrary stale cache contents in
// the parent and the child: the output equals a fresh Marshal.
//
//verif:props=C16 bounds=v.Maps.m3/m4(one-entry)|v.One.m;child-with-free-int32-field-or-empty;arbitrary-int32-cache-contents maxsteps=8000000 timeout=60000
func H_M9_sizecache() {
	child := new(VChild)
	if nd.Bool() {
		a := nd.Int32()
		child.A = &a
	}
	var mi *MessageInfo
	var p pointer
	switch nd.Int(0, 2) {
	case 0:
		x := &VMaps{M3: map[int32]*VChild{int32(nd.Byte()): child}}
		x.sizeCache = nd.Int32()
		mi, p = vMI_Maps(), pointer{p: unsafe.Pointer(x)}
	case 1:
		x := &VMaps{M4: map[string]*VChild{"k": child}}
		x.sizeCache = nd.Int32()
		mi, p = vMI_Maps(), pointer{p: unsafe.Pointer(x)}
	default:
		x := &VOne{O: &VOne_M{M: child}}
		x.sizeCache = nd.Int32()
		mi, p = vMI_One(), pointer{p: unsafe.Pointer(x)}
	}
	want, werr := mi.marshalAppendPointer(nil, p, marshalOptions{})
	nd.Assert(werr == nil, "fresh marshal succeeds")
	child.sizeCache = nd.Int32() // stale
	size := mi.sizePointer(p, marshalOptions{})
	got, err := mi.marshalAppendPointer(nil, p, marshalOptions{flags: protoiface.MarshalUseCachedSize})
	nd.Reach("marshalled")
	nd.Assert(err == nil, "marshal with cached sizes succeeds")
	nd.Assert(size == len(want), "Size is recomputed below a map value / oneof member, not taken from a stale cache")
	nd.Assert(mEq(got, want), "Marshal after Size encodes the current content whatever the caches held (map value / oneof member)")
}

// H_M1_oneof / H_M1_maps: the M1 body (decoder vs validator vs generic scan vs checkInitialized,
// never panics, consumes exactly its input) on every short byte string for the oneof and map
// corpus types: truncated entries, wrong wire types for members, entries with unknown inner fields.
//
//verif:props=C06,C12 bounds=v.One|v.One3;all-byte-strings<=4 maxsteps=10000000 timeout=60000
func H_M1_oneof() {
	k := 30
	if nd.Bool() {
		k = 31
	}
	mDecodeChecks(k, nd.Bytes(4))
}

//verif:props=C06 bounds=v.Maps;all-byte-strings<=4(quick)/5(thorough) maxsteps=10000000 timeout=60000
func H_M1_maps() {
	N := 4
	if nd.Thorough() {
		N = 5
	}
	mDecodeChecks(32, nd.Bytes(N))
}
