//go:build verif

package protolazy

import (
	"google.golang.org/protobuf/encoding/protowire"
	"google.golang.org/protobuf/internal/zzverif/nd"
)

// H_C17_lookup: lookupField on an arbitrary index sorted by (FieldNum, Start) returns exactly the
// entries of the requested field: none, one (start/end/contiguity) or all of several, in order.
//
//verif:props=C17 bounds=index<=4-entries;all-uint32-field-numbers-and-offsets
func H_C17_lookup() {
	n := nd.Int(0, 4)
	idx := make([]IndexEntry, n)
	for i := range idx {
		idx[i] = IndexEntry{FieldNum: nd.Uint32(), Start: nd.Uint32(), End: nd.Uint32(), MultipleContiguous: nd.Bool()}
		if i > 0 {
			a, b := idx[i-1], idx[i]
			nd.Assume(a.FieldNum < b.FieldNum || (a.FieldNum == b.FieldNum && a.Start < b.Start))
		}
	}
	q := nd.Uint32()
	start, end, found, mc, multi := lookupField(&idx, q)
	// reference
	var want []IndexEntry
	for _, e := range idx {
		if e.FieldNum == q {
			want = append(want, e)
		}
	}
	switch len(want) {
	case 0:
		nd.Reach("absent")
		nd.Assert(!found && multi == nil, "absent field is not found")
	case 1:
		nd.Reach("single")
		nd.Assert(found && multi == nil, "single entry is found")
		nd.Assert(start == want[0].Start && end == want[0].End && mc == want[0].MultipleContiguous, "single entry bounds")
	default:
		nd.Reach("multiple")
		nd.Assert(!found && len(multi) == len(want), "every non-contiguous occurrence is returned")
		if len(multi) == len(want) {
			for i := range want {
				nd.Assert(multi[i].FieldNum == q && multi[i].Start == want[i].Start && multi[i].End == want[i].End, "occurrences in order")
			}
		}
	}
}

func c17scan(b []byte) bool {
	for len(b) > 0 {
		num, _, n := protowire.ConsumeField(b)
		if n < 0 || num > protowire.MaxValidNumber {
			return false
		}
		b = b[n:]
	}
	return true
}

// H_C17_buildindex: on well-formed wire data with minimally encoded (<=5-byte) tags buildIndex
// succeeds, and for every field number the indexed segments concatenate to exactly that field's
// records in wire order (what SizeField/AppendField rely on).
//
//verif:props=C17 bounds=all-byte-strings<=5(quick)/6(thorough)-accepted-by-the-generic-wire-scan
func H_C17_buildindex() {
	N := 5
	if nd.Thorough() {
		N = 6
	}
	b := nd.Bytes(N)
	nd.Assume(c17scan(b))
	nd.Reach("well-formed")
	lazy := &XXX_lazyUnmarshalInfo{}
	lazy.SetBuffer(b)
	q := nd.Uint32()
	nd.Assume(q >= 1 && q <= 1<<29-1)
	// reference: concatenation of the records of field q
	var want []byte
	for r := b; len(r) > 0; {
		num, _, n := protowire.ConsumeField(r)
		if uint32(num) == q {
			want = append(want, r[:n]...)
		}
		r = r[n:]
	}
	got, ok := lazy.AppendField(nil, q)
	if len(want) == 0 {
		nd.Assert(!ok || len(got) == 0, "absent field has no segment")
		nd.Assert(lazy.SizeField(q) == 0, "absent field has size 0")
	} else {
		nd.Reach("field present")
		nd.Assert(ok, "present field is found")
		nd.Assert(lazy.SizeField(q) == len(want), "SizeField is the total length of the field's records")
		same := len(got) == len(want)
		if same {
			for i := range got {
				e := got[i] == want[i]
				same = same && e
			}
		}
		nd.Assert(same, "AppendField reproduces the field's records in wire order")
	}
}
