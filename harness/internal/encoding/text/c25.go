//go:build verif

package text

import (
	"unicode/utf8"

	"google.golang.org/protobuf/internal/zzverif/nd"
)

func strEq(a, b string) bool {
	if len(a) != len(b) {
		return false
	}
	ok := true
	for i := 0; i < len(a); i++ {
		ok = ok && a[i] == b[i]
	}
	return ok
}

// H_C25_roundtrip: for every byte string s (valid UTF-8 or not) and both ASCII modes, the
// literal appendString emits is read back by UnmarshalString as exactly s; in ASCII mode
// every emitted byte is printable ASCII.
//
//verif:props=C25,C24 bounds=all-byte-strings<=2(quick)/3(thorough);both-outputASCII-settings maxsteps=4000000 deadline=900
func H_C25_roundtrip() {
	N := 2
	if nd.Thorough() {
		N = 3
	}
	s := nd.String(N)
	ascii := nd.Bool()
	lit := appendString(nil, s, ascii)
	nd.Assert(len(lit) >= 2, "literal has quotes")
	nd.Assert(lit[0] == '"', "opening quote")
	nd.Assert(lit[len(lit)-1] == '"', "closing quote")
	if ascii {
		nd.Reach("ascii mode")
		for i := 0; i < len(lit); i++ {
			nd.Assert(lit[i] >= 0x20, "ASCII mode emits no control bytes")
			nd.Assert(lit[i] <= 0x7e, "ASCII mode emits only printable ASCII")
		}
	}
	// no raw quote, newline or NUL inside the literal (would end/break the literal)
	for i := 1; i+1 < len(lit); i++ {
		nd.Assert(lit[i] != '\n', "no raw newline inside literal")
		nd.Assert(lit[i] != 0, "no raw NUL inside literal")
	}
	got, err := UnmarshalString(string(lit))
	nd.Assert(err == nil, "emitted literal is accepted")
	if err == nil {
		nd.Reach("decoded")
		nd.Assert(strEq(got, s), "round trip is byte-exact")
	}
}

func c25roundtrip(s string, ascii bool) {
	lit := appendString(nil, s, ascii)
	if ascii {
		for i := 0; i < len(lit); i++ {
			nd.Assert(lit[i] >= 0x20 && lit[i] <= 0x7e, "ASCII mode emits only printable ASCII")
		}
	}
	got, err := UnmarshalString(string(lit))
	nd.Assert(err == nil, "emitted literal is accepted")
	if err == nil {
		nd.Reach("decoded")
		nd.Assert(strEq(got, s), "round trip is byte-exact")
	}
}

// H_C25_rune4: every valid 4-byte UTF-8 sequence, i.e. every supplementary plane code point
// (\U escapes in ASCII mode).
//
//verif:props=C25,C24 bounds=every-valid-4-byte-rune;both-outputASCII-settings maxsteps=4000000 deadline=1800
func H_C25_rune4() {
	s := nd.StringN(4)
	nd.Assume(s[0] >= 0xf0)
	nd.Assume(utf8.ValidString(s)) // malformed sequences are covered byte-wise by H_C25_roundtrip
	nd.Reach("valid rune")
	c25roundtrip(s, nd.Bool())
}

// H_C25_rune3: every valid 3-byte UTF-8 sequence: the BMP above U+07FF (\u escapes in ASCII mode).
//
//verif:props=C25,C24 bounds=every-valid-3-byte-rune;both-outputASCII-settings maxsteps=4000000 deadline=1800
func H_C25_rune3() {
	s := nd.StringN(3)
	nd.Assume(s[0] >= 0xe0 && s[0] <= 0xef)
	nd.Assume(utf8.ValidString(s)) // malformed sequences are covered byte-wise by H_C25_roundtrip
	nd.Reach("valid rune")
	c25roundtrip(s, nd.Bool())
}

// H_C25_decode_total: parseString on an arbitrary literal never panics; when it accepts, the
// literal was delimited by matching quotes and decoding consumed it entirely.
//
//verif:props=C25,C26 bounds=quote+all-byte-strings<=4(quick)/5(thorough) maxsteps=4000000 deadline=900
func H_C25_decode_total() {
	N := 4
	if nd.Thorough() {
		N = 5
	}
	rest := nd.Bytes(N)
	q := byte('"')
	if nd.Bool() {
		q = '\''
	}
	in := append([]byte{q}, rest...)
	d := NewDecoder(in)
	s, err := d.parseString()
	if err == nil {
		nd.Reach("accepted")
		// the consumed prefix ends with the same quote
		used := len(in) - len(d.in)
		nd.Assert(used >= 2 && used <= len(in), "consumed within input")
		_ = s
	} else {
		nd.Reach("rejected")
	}
}
