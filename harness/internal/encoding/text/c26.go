//go:build verif

package text

import (
	"google.golang.org/protobuf/internal/zzverif/nd"
)

// H_C26_textdoc: the text token decoder is total: on every input Read either returns an error or
// makes progress, never panics, and reaches EOF within a bounded number of tokens.
//
//verif:props=C26 bounds=all-byte-strings<=3(quick)/4(thorough) maxsteps=6000000 deadline=900
func H_C26_textdoc() {
	N := 3
	if nd.Thorough() {
		N = 4
	}
	b := nd.Bytes(N)
	d := NewDecoder(b)
	for k := 0; ; k++ {
		nd.Assert(k <= 2*N+2, "decoder makes progress")
		tok, err := d.Read()
		if err != nil {
			nd.Reach("rejected")
			return
		}
		if tok.Kind() == EOF {
			nd.Reach("accepted")
			return
		}
	}
}
