//go:build verif

package defval

import (
	"google.golang.org/protobuf/internal/zzverif/nd"
	"google.golang.org/protobuf/reflect/protoreflect"
)

func c39eq(a, b []byte) bool {
	if len(a) != len(b) {
		return false
	}
	ok := true
	for i := range a {
		ok = ok && a[i] == b[i]
	}
	return ok
}

// H_C39_bytes: bytes defaults with arbitrary content survive Marshal/Unmarshal in both formats.
//
//verif:props=C39 bounds=all-byte-strings<=3(quick)/4(thorough);both-formats maxsteps=4000000
func H_C39_bytes() {
	N := 3
	if nd.Thorough() {
		N = 4
	}
	b := nd.Bytes(N)
	f := Descriptor
	if nd.Bool() {
		f = GoTag
	}
	s, err := Marshal(protoreflect.ValueOfBytes(b), nil, protoreflect.BytesKind, f)
	nd.Assert(err == nil, "bytes default formats")
	for i := 0; i < len(s); i++ {
		nd.Assert(s[i] >= 0x20 && s[i] <= 0x7e, "formatted bytes default is printable ASCII")
	}
	v, _, uerr := Unmarshal(s, protoreflect.BytesKind, nil, f)
	nd.Assert(uerr == nil, "formatted bytes default parses")
	if uerr == nil {
		nd.Reach("parsed")
		nd.Assert(c39eq(v.Bytes(), b), "bytes default round trips exactly")
	}
}

// H_C39_bool_string: bool and string defaults in both formats.
//
//verif:props=C39 bounds=both-bools;strings<=3-bytes;both-formats
func H_C39_bool_string() {
	f := Descriptor
	if nd.Bool() {
		f = GoTag
	}
	x := nd.Bool()
	s, err := Marshal(protoreflect.ValueOfBool(x), nil, protoreflect.BoolKind, f)
	nd.Assert(err == nil, "bool formats")
	v, _, uerr := Unmarshal(s, protoreflect.BoolKind, nil, f)
	nd.Assert(uerr == nil && v.Bool() == x, "bool default round trips")
	str := nd.String(3)
	s2, err2 := Marshal(protoreflect.ValueOfString(str), nil, protoreflect.StringKind, f)
	nd.Assert(err2 == nil, "string formats")
	v2, _, uerr2 := Unmarshal(s2, protoreflect.StringKind, nil, f)
	nd.Assert(uerr2 == nil && v2.String() == str, "string default round trips")
	nd.Reach("done")
}

// c39intKinds: the ten integer kinds.
var c39intKinds = [10]protoreflect.Kind{
	protoreflect.Int32Kind, protoreflect.Sint32Kind, protoreflect.Sfixed32Kind,
	protoreflect.Int64Kind, protoreflect.Sint64Kind, protoreflect.Sfixed64Kind,
	protoreflect.Uint32Kind, protoreflect.Fixed32Kind, protoreflect.Uint64Kind, protoreflect.Fixed64Kind,
}

// H_C39_ints: every value of every integer kind survives Marshal/Unmarshal (real
// strconv.FormatInt/ParseInt executed symbolically).
//
//verif:props=C39 bounds=10-integer-kinds;all-32/64-bit-values solver=cvc5-int timeout=60000 maxsteps=4000000
func H_C39_ints() {
	ki := nd.Int(0, 9)
	k := c39intKinds[ki]
	var v protoreflect.Value
	switch {
	case ki < 3:
		v = protoreflect.ValueOfInt32(nd.Int32())
	case ki < 6:
		v = protoreflect.ValueOfInt64(nd.Int64())
	case ki < 8:
		v = protoreflect.ValueOfUint32(nd.Uint32())
	default:
		v = protoreflect.ValueOfUint64(nd.Uint64())
	}
	s, err := Marshal(v, nil, k, Descriptor)
	nd.Assert(err == nil, "integer default formats")
	w, _, uerr := Unmarshal(s, k, nil, Descriptor)
	nd.Assert(uerr == nil, "formatted integer default parses")
	if uerr == nil {
		nd.Reach("parsed")
		nd.Assert(w.Equal(v), "integer default round trips exactly (same kind, same value)")
	}
}
