//go:build verif

package defval

import (
	"google.golang.org/protobuf/internal/zzverif/nd"
	"google.golang.org/protobuf/reflect/protoreflect"
)

func c39eq(a, b []byte) bool {
	if len(a) != len(b) {
		return false
	}
	ok := true
	for i := range a {
		ok = ok && a[i] == b[i]
	}
	return ok
}

// H_C39_bytes: bytes defaults with arbitrary content survive Marshal/Unmarshal in both formats.
//
//verif:props=C39 bounds=all-byte-strings<=3(quick)/4(thorough);both-formats maxsteps=4000000
func H_C39_bytes() {
	N := 3
	if nd.Thorough() {
		N = 4
	}
	b := nd.Bytes(N)
	f := Descriptor
	if nd.Bool() {
		f = GoTag
	}
	s, err := Marshal(protoreflect.ValueOfBytes(b), nil, protoreflect.BytesKind, f)
	nd.Assert(err == nil, "bytes default formats")
	for i := 0; i < len(s); i++ {
		nd.Assert(s[i] >= 0x20 && s[i] <= 0x7e, "formatted bytes default is printable ASCII")
	}
	v, _, uerr := Unmarshal(s, protoreflect.BytesKind, nil, f)
	nd.Assert(uerr == nil, "formatted bytes default parses")
	if uerr == nil {
		nd.Reach("parsed")
		nd.Assert(c39eq(v.Bytes(), b), "bytes default round trips exactly")
	}
}

// H_C39_bool_string: bool and string defaults in both formats.
//
//verif:props=C39 bounds=both-bools;strings<=3-bytes;both-formats
func H_C39_bool_string() {
	f := Descriptor
	if nd.Bool() {
		f = GoTag
	}
	x := nd.Bool()
	s, err := Marshal(protoreflect.ValueOfBool(x), nil, protoreflect.BoolKind, f)
	nd.Assert(err == nil, "bool formats")
	v, _, uerr := Unmarshal(s, protoreflect.BoolKind, nil, f)
	nd.Assert(uerr == nil && v.Bool() == x, "bool default round trips")
	str := nd.String(3)
	s2, err2 := Marshal(protoreflect.ValueOfString(str), nil, protoreflect.StringKind, f)
	nd.Assert(err2 == nil, "string formats")
	v2, _, uerr2 := Unmarshal(s2, protoreflect.StringKind, nil, f)
	nd.Assert(uerr2 == nil && v2.String() == str, "string default round trips")
	nd.Reach("done")
}

// Integer kinds: a full-width (and even a |v| < 100000) round trip through the real
// strconv.FormatInt/ParseInt did not finish within budget (solver unknown on the digit-table
// lookups, shape cap on smallsString slicing); integer defaults are therefore OUTSIDE the claim.
