//go:build verif

package messageset

import (
	"google.golang.org/protobuf/encoding/protowire"
	"google.golang.org/protobuf/internal/zzverif/nd"
)

func c47eq(a, b []byte) bool {
	if len(a) != len(b) {
		return false
	}
	ok := true
	for i := range a {
		ok = ok && a[i] == b[i]
	}
	return ok
}

// H_C47_item: an item {type_id, message} written in either field order, optionally with an
// unknown varint field interleaved and optionally with the message split in two fields, is read
// back as (type_id, message bytes, full length); SizeField accounts for the framing exactly.
//
//verif:props=C47 bounds=type-id-1..MaxInt32;body<=3-bytes;second-body<=2-bytes;both-orders;optional-unknown-field;minimal-and-non-minimal-length-prefix
func H_C47_item() {
	id := nd.Int32()
	nd.Assume(id >= 1)
	body := nd.Bytes(3)
	idFirst := nd.Bool()
	withUnknown := nd.Bool()
	split := nd.Bool()
	wantLen := nd.Bool()
	var body2 []byte
	if split {
		body2 = nd.Bytes(2)
	}
	// item after the start-group tag
	var b []byte
	appendID := func() {
		b = protowire.AppendTag(b, FieldTypeID, protowire.VarintType)
		b = protowire.AppendVarint(b, uint64(id))
	}
	nonMinimal := nd.Bool() // the first message field's length prefix as a non-minimal 2-byte varint
	first := true
	appendMsg := func(m []byte) {
		b = protowire.AppendTag(b, FieldMessage, protowire.BytesType)
		if first && nonMinimal {
			b = append(b, 0x80|byte(len(m)), 0x00)
			b = append(b, m...)
		} else {
			b = protowire.AppendBytes(b, m)
		}
		first = false
	}
	if idFirst {
		appendID()
	}
	if withUnknown {
		b = protowire.AppendTag(b, 4, protowire.VarintType)
		b = protowire.AppendVarint(b, uint64(nd.Uint32()))
	}
	appendMsg(body)
	if split {
		appendMsg(body2)
	}
	if !idFirst {
		appendID()
	}
	b = AppendFieldEnd(b)
	rest := nd.Bytes(1) // trailing data must not be touched
	in := append(append([]byte(nil), b...), rest...)

	typeid, msg, n, err := ConsumeFieldValue(in, wantLen)
	nd.Reach("consumed")
	nd.Assert(err == nil, "well-formed item is accepted")
	if err != nil {
		return
	}
	nd.Assert(typeid == protowire.Number(id), "type id")
	nd.Assert(n == len(b), "consumes exactly the item")
	want := append(append([]byte(nil), body...), body2...)
	if wantLen {
		v, k := protowire.ConsumeVarint(msg)
		nd.Assert(k > 0 && int(v) == len(want), "length prefix")
		if k > 0 {
			nd.Assert(c47eq(msg[k:], want), "message bytes (with length)")
		}
	} else {
		nd.Assert(c47eq(msg, want), "message bytes")
	}
	if !split && !withUnknown && !nonMinimal {
		full := len(b) + protowire.SizeTag(FieldItem)
		nd.Assert(SizeField(protowire.Number(id))+protowire.SizeTag(FieldMessage)+protowire.SizeBytes(len(body)) == full, "SizeField accounts for the framing")
		// AppendFieldStart produces the canonical prefix
		c := AppendFieldStart(nil, protowire.Number(id))
		c = protowire.AppendTag(c, FieldMessage, protowire.BytesType)
		c = protowire.AppendBytes(c, body)
		c = AppendFieldEnd(c)
		nd.Assert(len(c) == full, "AppendFieldStart/End length")
		if idFirst {
			nd.Assert(c47eq(c[1:], b), "canonical item layout")
		}
	}
}

func c47scanOK(b []byte) bool {
	for len(b) > 0 {
		_, _, n := protowire.ConsumeField(b)
		if n < 0 {
			return false
		}
		b = b[n:]
	}
	return true
}

// H_C47_unmarshal_total: Unmarshal never panics on arbitrary input, only reports items with a
// type id in 1..MaxInt32, and accepts nothing the generic wire scanner rejects.
//
//verif:props=C47 bounds=all-byte-strings<=5(quick)/6(thorough)
func H_C47_unmarshal_total() {
	N := 5
	if nd.Thorough() {
		N = 6
	}
	b := nd.Bytes(N)
	wantLen := nd.Bool()
	items := 0
	err := Unmarshal(b, wantLen, func(id protowire.Number, v []byte) error {
		items++
		nd.Assert(id >= 1, "reported type id is positive")
		if wantLen {
			l, k := protowire.ConsumeVarint(v)
			nd.Assert(k > 0 && int(l) == len(v)-k, "value carries its length prefix")
		}
		return nil
	})
	if err == nil {
		nd.Reach("accepted")
		nd.Assert(c47scanOK(b), "accepted input is well-formed wire data")
	} else {
		nd.Reach("rejected")
	}
	if items > 0 {
		nd.Reach("item reported")
	}
}

// H_C47_unknown: AppendUnknown re-frames a sequence of length-delimited unknown fields as items
// of exactly SizeUnknown bytes that Unmarshal reads back as the same (type id, payload) list;
// anything else is rejected.
//
//verif:props=C47 bounds=all-byte-strings<=5(quick)/6(thorough)
func H_C47_unknown() {
	N := 5
	if nd.Thorough() {
		N = 6
	}
	u := nd.Bytes(N)
	// reference: u is a sequence of (tag with bytes type, length-delimited payload)
	type rec struct {
		num protowire.Number
		val []byte
	}
	var recs []rec
	good := true
	for r := u; len(r) > 0; {
		num, typ, n := protowire.ConsumeTag(r)
		if n < 0 || typ != protowire.BytesType {
			good = false
			break
		}
		r = r[n:]
		v, n := protowire.ConsumeBytes(r)
		if n < 0 {
			good = false
			break
		}
		recs = append(recs, rec{num, v})
		r = r[n:]
	}
	out, err := AppendUnknown(nil, u)
	nd.Assert((err == nil) == good, "AppendUnknown accepts exactly sequences of length-delimited fields")
	if err != nil {
		nd.Reach("rejected")
		return
	}
	nd.Reach("accepted")
	nd.Assert(len(out) == SizeUnknown(u), "SizeUnknown equals the appended length")
	k := 0
	uerr := Unmarshal(out, false, func(id protowire.Number, v []byte) error {
		if k < len(recs) {
			nd.Assert(id == recs[k].num, "type id preserved")
			nd.Assert(c47eq(v, recs[k].val), "payload preserved")
		}
		k++
		return nil
	})
	// field numbers above MaxInt32 cannot occur (ConsumeTag rejects them); number 0 is rejected too
	nd.Assert(uerr == nil, "re-framed items are readable")
	if uerr == nil {
		nd.Assert(k == len(recs), "every unknown field becomes one item")
	}
}
