//go:build verif

package json

import (
	"unicode/utf8"

	"google.golang.org/protobuf/internal/zzverif/nd"
)

func isDigit(c byte) bool { return '0' <= c && c <= '9' }

// refNumberPrefix returns the length of the longest prefix of b that is an RFC 8259
// number ( -? (0|[1-9][0-9]*) (\.[0-9]+)? ([eE][+-]?[0-9]+)? ), or 0 if none.
func refNumberPrefix(b []byte) int {
	i := 0
	if i < len(b) && b[i] == '-' {
		i++
	}
	if i >= len(b) {
		return 0
	}
	if b[i] == '0' {
		i++
	} else if '1' <= b[i] && b[i] <= '9' {
		for i < len(b) && isDigit(b[i]) {
			i++
		}
	} else {
		return 0
	}
	if i+1 < len(b) && b[i] == '.' && isDigit(b[i+1]) {
		i += 2
		for i < len(b) && isDigit(b[i]) {
			i++
		}
	}
	if i < len(b) && (b[i] == 'e' || b[i] == 'E') {
		j := i + 1
		if j < len(b) && (b[j] == '+' || b[j] == '-') {
			j++
		}
		if j < len(b) && isDigit(b[j]) {
			for j < len(b) && isDigit(b[j]) {
				j++
			}
			i = j
		}
	}
	return i
}

func refIsNumber(b []byte) bool { return len(b) > 0 && refNumberPrefix(b) == len(b) }

func isJSONDelim(c byte) bool {
	return c == ' ' || c == '\t' || c == '\n' || c == '\r' || c == ',' || c == ']' || c == '}' || c == ':'
}

// H_C21_num: parseNumber accepts only RFC 8259 numbers (C21) and accepts every
// RFC 8259 number that is followed by a JSON delimiter or the end of input (C22).
//
//verif:props=C21,C22 bounds=all-byte-strings<=6(quick)/8(thorough)
func H_C21_num() {
	N := 6
	if nd.Thorough() {
		N = 8
	}
	in := nd.Bytes(N)
	n, ok := parseNumber(in)
	if ok {
		nd.Reach("accepted")
		nd.Assert(n > 0 && n <= len(in), "consumed length within input")
		nd.Assert(refIsNumber(in[:n]), "accepted literal is an RFC 8259 number")
		nd.Assert(n == len(in) || !isNotDelim(in[n]), "accepted literal is followed by a delimiter")
	} else {
		nd.Reach("rejected")
		nd.Assert(n == 0, "n == 0 on rejection")
	}
	m := refNumberPrefix(in)
	if m > 0 && (m == len(in) || isJSONDelim(in[m])) {
		nd.Reach("grammatical number")
		nd.Assert(ok && n == m, "every RFC 8259 number followed by a delimiter is accepted whole")
	}
	// parseNumberParts mirrors parseNumber on accepted tokens
	if ok {
		parts, pok := parseNumberParts(in[:n])
		nd.Assert(pok, "parseNumberParts accepts what parseNumber accepted")
		nd.Assert(parts.neg == (in[0] == '-'), "sign")
	}
}

// refString decodes an RFC 8259 string literal at the start of b.
// It returns the decoded bytes, the literal's length, and ok.
func refString(b []byte) ([]byte, int, bool) {
	if len(b) == 0 || b[0] != '"' {
		return nil, 0, false
	}
	var out []byte
	i := 1
	for i < len(b) {
		c := b[i]
		switch {
		case c == '"':
			return out, i + 1, true
		case c < 0x20:
			return nil, 0, false
		case c == '\\':
			if i+1 >= len(b) {
				return nil, 0, false
			}
			switch e := b[i+1]; e {
			case '"', '\\', '/':
				out = append(out, e)
				i += 2
			case 'b':
				out = append(out, 8)
				i += 2
			case 'f':
				out = append(out, 12)
				i += 2
			case 'n':
				out = append(out, 10)
				i += 2
			case 'r':
				out = append(out, 13)
				i += 2
			case 't':
				out = append(out, 9)
				i += 2
			case 'u':
				r, ok := refHex4(b, i+2)
				if !ok {
					return nil, 0, false
				}
				i += 6
				if r >= 0xd800 && r < 0xe000 {
					// surrogate: needs a following low surrogate escape
					if r >= 0xdc00 || i+1 >= len(b) || b[i] != '\\' || b[i+1] != 'u' {
						return nil, 0, false
					}
					r2, ok := refHex4(b, i+2)
					if !ok || r2 < 0xdc00 || r2 >= 0xe000 {
						return nil, 0, false
					}
					i += 6
					r = 0x10000 + (r-0xd800)<<10 + (r2 - 0xdc00)
				}
				out = utf8.AppendRune(out, r)
			default:
				return nil, 0, false
			}
		default:
			r, n := utf8.DecodeRune(b[i:])
			if r == utf8.RuneError && n == 1 {
				return nil, 0, false
			}
			out = append(out, b[i:i+n]...)
			i += n
		}
	}
	return nil, 0, false
}

func refHex4(b []byte, i int) (rune, bool) {
	if i+4 > len(b) {
		return 0, false
	}
	var v rune
	for k := 0; k < 4; k++ {
		c := b[i+k]
		var d byte
		switch {
		case '0' <= c && c <= '9':
			d = c - '0'
		case 'a' <= c && c <= 'f':
			d = c - 'a' + 10
		case 'A' <= c && c <= 'F':
			d = c - 'A' + 10
		default:
			return 0, false
		}
		v = v<<4 | rune(d)
	}
	return v, true
}

func bytesEqStr(a []byte, s string) bool {
	if len(a) != len(s) {
		return false
	}
	ok := true
	for i := range a {
		ok = ok && a[i] == s[i]
	}
	return ok
}

func checkParseString(in []byte) {
	d := NewDecoder(in)
	s, n, err := d.parseString(in)
	if err == nil {
		nd.Reach("accepted")
		out, rn, rok := refString(in)
		nd.Assert(rok, "accepted literal is an RFC 8259 string")
		nd.Assert(n == rn, "consumed exactly the literal")
		nd.Assert(bytesEqStr(out, s), "decoded value")
		nd.Assert(utf8.ValidString(s), "decoded value is valid UTF-8")
	} else {
		nd.Reach("rejected")
	}
}

// H_C21_str: parseString accepts only RFC 8259 strings and decodes them correctly.
//
//verif:props=C21,C20 bounds=quote+all-byte-strings<=5(quick)/7(thorough)
func H_C21_str() {
	N := 5
	if nd.Thorough() {
		N = 7
	}
	rest := nd.Bytes(N)
	in := append([]byte{'"'}, rest...)
	checkParseString(in)
}

func lowerHex(c byte) bool { return ('0' <= c && c <= '9') || ('a' <= c && c <= 'f') }

// H_C21_str_escape1: one \uXXXX escape with four free bytes (every digit class, invalid digits,
// lone surrogates) followed by one free byte.
//
//verif:props=C21,C20 bounds="\uXXXX"+1-free-byte;XXXX-any-bytes
func H_C21_str_escape1() {
	h := nd.BytesN(5)
	in := []byte{'"', '\\', 'u', h[0], h[1], h[2], h[3], h[4], '"'}
	checkParseString(in)
}

// H_C21_str_escape2: two consecutive escapes (surrogate pairs, lone/reversed surrogates,
// non-surrogates); the first escape's digits range over [0-9a-f], the second's over all bytes
// in the thorough tier and over [0-9a-f] in the quick tier.
//
//verif:props=C21,C20 bounds="\uXXXX\uYYYY";X-in-[0-9a-f];Y-any-byte tier=thorough timeout=30000
func H_C21_str_escape2() {
	h := nd.BytesN(8)
	for i := 0; i < 4; i++ {
		nd.Assume(lowerHex(h[i]))
	}
	in := []byte{'"', '\\', 'u', h[0], h[1], h[2], h[3], '\\', 'u', h[4], h[5], h[6], h[7], '"'}
	checkParseString(in)
}

// H_C21_str_escape_pair: a high-surrogate escape "\ud8XX".."\udbXX" followed by two free bytes (which
// must be a backslash and a 'u' for a valid pair) and four lower-hex digits.
//
//verif:props=C21,C20 bounds="\ud[89ab]XX"+2-free-bytes+4-lower-hex-digits
func H_C21_str_escape_pair() {
	h := nd.BytesN(9)
	nd.Assume(h[0] == '8' || h[0] == '9' || h[0] == 'a' || h[0] == 'b')
	nd.Assume(lowerHex(h[1]) && lowerHex(h[2]))
	for i := 5; i < 9; i++ {
		nd.Assume(lowerHex(h[i]))
	}
	in := []byte{'"', '\\', 'u', 'd', h[0], h[1], h[2], h[3], h[4], h[5], h[6], h[7], h[8], '"'}
	checkParseString(in)
}

// H_C21_lit: null/true/false matching with delimiter.
//
//verif:props=C21 bounds=all-byte-strings<=6
func H_C21_lit() {
	in := nd.Bytes(6)
	for _, lit := range []string{"null", "true", "false"} {
		n := matchWithDelim(lit, in)
		if n != 0 {
			nd.Reach("matched")
			nd.Assert(n == len(lit), "length")
			nd.Assert(bytesEqStr(in[:n], lit), "literal text")
			nd.Assert(n == len(in) || !isNotDelim(in[n]), "followed by delimiter")
		}
	}
}

// ---- whole-document reference: RFC 8259 value grammar with whitespace ----

func refWS(b []byte, i int) int {
	for i < len(b) && (b[i] == ' ' || b[i] == '\t' || b[i] == '\n' || b[i] == '\r') {
		i++
	}
	return i
}

// refValue parses one JSON value at i and returns the index after it, or -1.
func refValue(b []byte, i int, depth int) int {
	if depth < 0 {
		return -1
	}
	i = refWS(b, i)
	if i >= len(b) {
		return -1
	}
	switch c := b[i]; {
	case c == '{':
		i = refWS(b, i+1)
		if i < len(b) && b[i] == '}' {
			return i + 1
		}
		for {
			i = refWS(b, i)
			_, n, ok := refString(b[i:])
			if !ok {
				return -1
			}
			i = refWS(b, i+n)
			if i >= len(b) || b[i] != ':' {
				return -1
			}
			i = refValue(b, i+1, depth-1)
			if i < 0 {
				return -1
			}
			i = refWS(b, i)
			if i >= len(b) {
				return -1
			}
			if b[i] == '}' {
				return i + 1
			}
			if b[i] != ',' {
				return -1
			}
			i++
		}
	case c == '[':
		i = refWS(b, i+1)
		if i < len(b) && b[i] == ']' {
			return i + 1
		}
		for {
			i = refValue(b, i, depth-1)
			if i < 0 {
				return -1
			}
			i = refWS(b, i)
			if i >= len(b) {
				return -1
			}
			if b[i] == ']' {
				return i + 1
			}
			if b[i] != ',' {
				return -1
			}
			i++
		}
	case c == '"':
		_, n, ok := refString(b[i:])
		if !ok {
			return -1
		}
		return i + n
	case c == 'n':
		if hasPrefixAt(b, i, "null") {
			return i + 4
		}
		return -1
	case c == 't':
		if hasPrefixAt(b, i, "true") {
			return i + 4
		}
		return -1
	case c == 'f':
		if hasPrefixAt(b, i, "false") {
			return i + 5
		}
		return -1
	default:
		n := refNumberPrefix(b[i:])
		if n == 0 {
			return -1
		}
		return i + n
	}
}

func hasPrefixAt(b []byte, i int, s string) bool {
	if i+len(s) > len(b) {
		return false
	}
	for k := 0; k < len(s); k++ {
		if b[i+k] != s[k] {
			return false
		}
	}
	return true
}

func refDocument(b []byte) bool {
	i := refValue(b, 0, 8)
	if i < 0 {
		return false
	}
	return refWS(b, i) == len(b)
}

// H_C21_doc: a document the token decoder reads to EOF without error is a valid JSON text;
// the decoder never panics and always terminates (C26).
//
//verif:props=C21,C26 bounds=all-byte-strings<=4(quick)/5(thorough) maxsteps=4000000
func H_C21_doc() {
	N := 4
	if nd.Thorough() {
		N = 5
	}
	b := nd.Bytes(N)
	d := NewDecoder(b)
	k := 0
	for ; ; k++ {
		nd.Assert(k <= 2*N+2, "decoder makes progress")
		tok, err := d.Read()
		if err != nil {
			nd.Reach("rejected")
			return
		}
		if tok.Kind() == EOF {
			break
		}
	}
	if k == 0 {
		// no value token at all (empty or whitespace-only input): the token reader reports EOF and
		// it is protojson's message decoder that rejects it ("unexpected token"); not a JSON text.
		nd.Reach("empty")
		nd.Assert(!refDocument(b), "empty input is not a JSON text")
		return
	}
	nd.Reach("accepted")
	nd.Assert(refDocument(b), "accepted document is valid JSON")
}
