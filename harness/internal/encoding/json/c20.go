//go:build verif

package json

import (
	"unicode/utf8"

	"google.golang.org/protobuf/internal/zzverif/nd"
)

// H_C21_encode_string: the JSON encoder's string form. For every string: invalid UTF-8 is
// refused (the one representability failure that lives at this level); otherwise the emitted
// literal is an RFC 8259 string (reference recogniser), consumed whole by parseString, and decodes
// back to exactly the input.
//
//verif:props=C21,C20,C13 bounds=all-strings<=3(quick)/4(thorough)-bytes maxsteps=4000000
func H_C21_encode_string() {
	N := 3
	if nd.Thorough() {
		N = 4
	}
	s := nd.String(N)
	out, err := appendString(nil, s)
	if !utf8.ValidString(s) {
		nd.Reach("invalid UTF-8")
		nd.Assert(err != nil, "invalid UTF-8 is refused by the encoder")
		return
	}
	nd.Reach("valid UTF-8")
	nd.Assert(err == nil, "valid UTF-8 is encodable")
	if err != nil {
		return
	}
	dec, n, ok := refString(out)
	nd.Assert(ok && n == len(out), "emitted literal is exactly one RFC 8259 string")
	if ok {
		nd.Assert(bytesEqStr(dec, s), "reference decoding of the literal gives the input")
	}
	d := NewDecoder(out)
	got, m, perr := d.parseString(out)
	nd.Assert(perr == nil && m == len(out), "the decoder accepts the encoder's literal whole")
	if perr == nil {
		nd.Assert(got == s, "encode/decode round trip is exact")
	}
}
