//go:build verif

package json

import (
	"unicode/utf8"

	"google.golang.org/protobuf/internal/zzverif/nd"
)

// H_C21_encode_string: the JSON encoder's string form. For every string: invalid UTF-8 is
// refused (the one representability failure that lives at this level); otherwise the emitted
// literal is an RFC 8259 string (reference recogniser), consumed whole by parseString, and decodes
// back to exactly the input.
//
//verif:props=C21,C20,C13 bounds=all-strings<=3(quick)/4(thorough)-bytes maxsteps=4000000
func H_C21_encode_string() {
	N := 3
	if nd.Thorough() {
		N = 4
	}
	s := nd.String(N)
	out, err := appendString(nil, s)
	if !utf8.ValidString(s) {
		nd.Reach("invalid UTF-8")
		nd.Assert(err != nil, "invalid UTF-8 is refused by the encoder")
		return
	}
	nd.Reach("valid UTF-8")
	nd.Assert(err == nil, "valid UTF-8 is encodable")
	if err != nil {
		return
	}
	dec, n, ok := refString(out)
	nd.Assert(ok && n == len(out), "emitted literal is exactly one RFC 8259 string")
	if ok {
		nd.Assert(bytesEqStr(dec, s), "reference decoding of the literal gives the input")
	}
	d := NewDecoder(out)
	got, m, perr := d.parseString(out)
	nd.Assert(perr == nil && m == len(out), "the decoder accepts the encoder's literal whole")
	if perr == nil {
		nd.Assert(got == s, "encode/decode round trip is exact")
	}
}

// H_C21_encoder_structure: whatever the encoder's whitespace choices (single line with the
// detrand-controlled optional space, or indented), the document it writes for a small nested value
// {"<k>": <bool>, "l": [<int>, "<s>", {}], "n": null} is valid JSON (reference recogniser) and the
// decoder reads back the same sequence of tokens with the same values.
//
//verif:props=C21,C20 bounds=fixed-shape-document;symbolic-key(1-byte),bool,string<=1-byte;concrete-number;3-indent-modes;all-detrand-choices maxsteps=6000000
func H_C21_encoder_structure() {
	indent := []string{"", " ", "\t"}[nd.Int(0, 2)]
	e, err := NewEncoder(nil, indent)
	nd.Assert(err == nil, "encoder")
	k := nd.StringN(1)
	nd.Assume(k[0] >= 0x20 && k[0] < 0x7f && k[0] != '"' && k[0] != '\\')
	bv := nd.Bool()
	iv := byte(42) // concrete: symbolic integer formatting (strconv digit tables) is out of reach
	sv := nd.String(1)
	nd.Assume(utf8.ValidString(sv))
	e.StartObject()
	e.WriteName(k)
	e.WriteBool(bv)
	e.WriteName("l")
	e.StartArray()
	e.WriteUint(uint64(iv))
	nd.Assert(e.WriteString(sv) == nil, "valid UTF-8 string is written")
	e.StartObject()
	e.EndObject()
	e.EndArray()
	e.WriteName("n")
	e.WriteNull()
	e.EndObject()
	out := e.Bytes()
	nd.Reach("written")
	nd.Assert(refDocument(out), "encoder output is valid JSON")
	d := NewDecoder(out)
	kinds := []Kind{ObjectOpen, Name, Bool, Name, ArrayOpen, Number, String, ObjectOpen, ObjectClose, ArrayClose, Name, Null, ObjectClose, EOF}
	for i, want := range kinds {
		tok, rerr := d.Read()
		nd.Assert(rerr == nil, "decoder accepts the encoder's output")
		if rerr != nil {
			return
		}
		nd.Assert(tok.Kind() == want, "same token sequence")
		switch i {
		case 1:
			nd.Assert(tok.Name() == k, "key")
		case 2:
			nd.Assert(tok.Bool() == bv, "bool value")
		case 5:
			u, ok := tok.Uint(64)
			nd.Assert(ok && u == uint64(iv), "number value")
		case 6:
			nd.Assert(tok.ParsedString() == sv, "string value")
		}
	}
}
