//go:build verif

package json

import (
	"math/bits"

	"google.golang.org/protobuf/internal/zzverif/nd"
)

var c22pow10 = [20]uint64{1, 10, 100, 1000, 10000, 100000, 1000000, 10000000, 100000000, 1000000000,
	10000000000, 100000000000, 1000000000000, 10000000000000, 100000000000000, 1000000000000000,
	10000000000000000, 100000000000000000, 1000000000000000000, 10000000000000000000}

// c22literal builds a JSON number literal of a case-split shape with symbolic digits:
// [-] intDigits [ "." fracDigits ] [ "e" exponent ]; it returns the literal, the mantissa
// (all digits read as one integer) and the decimal scale (exponent - number of fraction digits).
func c22literal(maxInt, maxFrac, maxExp int) (lit []byte, neg bool, mant uint64, scale int) {
	neg = nd.Bool()
	ni := nd.Int(1, maxInt)
	nf := nd.Int(0, maxFrac)
	hasExp := nd.Bool()
	e := 0
	if hasExp {
		e = nd.Int(-maxExp, maxExp)
	}
	d := nd.BytesN(ni + nf)
	for i := range d {
		nd.Assume('0' <= d[i] && d[i] <= '9')
	}
	if ni > 1 {
		nd.Assume(d[0] != '0') // no redundant leading zero (not JSON)
	}
	if neg {
		lit = append(lit, '-')
	}
	lit = append(lit, d[:ni]...)
	if nf > 0 {
		lit = append(lit, '.')
		lit = append(lit, d[ni:]...)
	}
	if hasExp {
		lit = append(lit, 'e')
		a := e
		if a < 0 {
			lit = append(lit, '-')
			a = -a
		} else if nd.Bool() {
			lit = append(lit, '+')
		}
		if a >= 10 {
			lit = append(lit, byte('0'+a/10))
		}
		lit = append(lit, byte('0'+a%10))
	}
	for i := range d {
		mant = mant*10 + uint64(d[i]-'0')
	}
	return lit, neg, mant, e - nf
}

// c22value: the exact value mant*10^scale when it is a non-negative integer below 2^64.
// integral=false: not an integer; fits=false: an integer of 2^64 or more.
func c22value(mant uint64, scale int) (v uint64, integral, fits bool) {
	if mant == 0 {
		return 0, true, true
	}
	if scale >= 0 {
		if scale > 19 {
			return 0, true, false
		}
		hi, lo := bits.Mul64(mant, c22pow10[scale])
		return lo, true, hi == 0
	}
	if -scale > 19 {
		return 0, false, false
	}
	p := c22pow10[-scale]
	if mant%p != 0 {
		return 0, false, false
	}
	return mant / p, true, true
}

func c22check(maxInt, maxFrac, maxExp int) {
	lit, neg, mant, scale := c22literal(maxInt, maxFrac, maxExp)
	n, ok := parseNumber(lit)
	nd.Assert(ok && n == len(lit), "literal is a JSON number")
	tok := Token{kind: Number, raw: lit}
	v, integral, fits := c22value(mant, scale)
	nd.Reach("literal")

	i64, ok64 := tok.Int(64)
	want64 := integral && fits && ((!neg && v <= 1<<63-1) || (neg && v <= 1<<63))
	nd.Assert(ok64 == want64, "int64 accepts exactly the representable integers")
	if ok64 && want64 {
		nd.Reach("int64 accepted")
		if neg {
			nd.Assert(uint64(i64) == -v, "int64 value (negative)")
		} else {
			nd.Assert(uint64(i64) == v, "int64 value")
		}
	}
	i32, ok32 := tok.Int(32)
	want32 := integral && fits && ((!neg && v <= 1<<31-1) || (neg && v <= 1<<31))
	nd.Assert(ok32 == want32, "int32 accepts exactly the representable integers")
	if ok32 && want32 {
		if neg {
			nd.Assert(i32 == -int64(v), "int32 value (negative)")
		} else {
			nd.Assert(i32 == int64(v), "int32 value")
		}
	}
	u64, oku64 := tok.Uint(64)
	wantu64 := integral && fits && (!neg || v == 0)
	nd.Assert(oku64 == wantu64, "uint64 accepts exactly the representable integers")
	if oku64 && wantu64 {
		nd.Reach("uint64 accepted")
		nd.Assert(u64 == v, "uint64 value")
	}
	u32, oku32 := tok.Uint(32)
	wantu32 := integral && fits && (!neg || v == 0) && v <= 1<<32-1
	nd.Assert(oku32 == wantu32, "uint32 accepts exactly the representable integers")
	if oku32 && wantu32 {
		nd.Assert(u32 == v, "uint32 value")
	}
}

// H_C22_int: integer fields decode JSON number literals exactly whatever their notation
// (plain, fraction, exponent) and reject non-integral or out-of-range values.
//
//verif:props=C22 bounds=sign;<=2-integer-digits;<=2-fraction-digits;exponent-in--21..21(quick);<=5-int/3-frac/exp--25..25(thorough);all-digits-symbolic solver=cvc5-int timeout=30000 maxsteps=4000000
func H_C22_int() {
	if nd.Thorough() {
		c22check(5, 3, 25)
	} else {
		c22check(2, 2, 21)
	}
}

// H_C22_int_long: long plain integers around the 64-bit limits (18..20 digits, no exponent).
//
//verif:props=C22 bounds=sign;18..20-symbolic-digits;no-fraction;no-exponent solver=cvc5-int timeout=30000 maxsteps=4000000
func H_C22_int_long() {
	neg := nd.Bool()
	n := nd.Int(18, 20)
	d := nd.BytesN(n)
	for i := range d {
		nd.Assume('0' <= d[i] && d[i] <= '9')
	}
	nd.Assume(d[0] != '0')
	var lit []byte
	if neg {
		lit = append(lit, '-')
	}
	lit = append(lit, d...)
	// exact value with overflow detection
	var v uint64
	fits := true
	for i := range d {
		hi, lo := bits.Mul64(v, 10)
		s, c := bits.Add64(lo, uint64(d[i]-'0'), 0)
		f := hi == 0 && c == 0
		fits = fits && f
		v = s
	}
	tok := Token{kind: Number, raw: lit}
	nd.Reach("literal")
	i64, ok64 := tok.Int(64)
	want64 := fits && ((!neg && v <= 1<<63-1) || (neg && v <= 1<<63))
	nd.Assert(ok64 == want64, "int64 accepts exactly the representable integers")
	if ok64 && want64 {
		nd.Reach("int64 accepted")
		if neg {
			nd.Assert(uint64(i64) == -v, "int64 value (negative)")
		} else {
			nd.Assert(uint64(i64) == v, "int64 value")
		}
	}
	u64, oku := tok.Uint(64)
	nd.Assert(oku == (fits && !neg), "uint64 accepts exactly the representable integers")
	if oku && fits && !neg {
		nd.Reach("uint64 accepted")
		nd.Assert(u64 == v, "uint64 value")
	}
}
