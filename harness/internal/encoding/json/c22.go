//go:build verif

package json

import (
	"math/bits"

	"google.golang.org/protobuf/internal/zzverif/nd"
)

var c22pow10 = [20]uint64{1, 10, 100, 1000, 10000, 100000, 1000000, 10000000, 100000000, 1000000000,
	10000000000, 100000000000, 1000000000000, 10000000000000, 100000000000000, 1000000000000000,
	10000000000000000, 100000000000000000, 1000000000000000000, 10000000000000000000}

// c22literal builds a JSON number literal of a case-split shape with symbolic digits:
// [-] intDigits [ "." fracDigits ] [ "e" exponent ]; it returns the literal, the mantissa
// (all digits read as one integer) and the decimal scale (exponent - number of fraction digits).
func c22literal(maxInt, maxFrac, maxExp int) (lit []byte, neg bool, mant uint64, scale int) {
	neg = nd.Bool()
	ni := nd.Int(1, maxInt)
	nf := nd.Int(0, maxFrac)
	hasExp := nd.Bool()
	e := 0
	if hasExp {
		if maxExp == 0 {
			// quick tier: the exponents around zero and around the 64-bit decimal limit
			e = []int{-3, -2, -1, 0, 1, 2, 3, 17, 18, 19, 20, 21, 22}[nd.Int(0, 12)]
		} else {
			e = nd.Int(-maxExp, maxExp)
		}
	}
	d := nd.BytesN(ni + nf)
	for i := range d {
		nd.Assume('0' <= d[i] && d[i] <= '9')
	}
	if ni > 1 {
		nd.Assume(d[0] != '0') // no redundant leading zero (not JSON)
	}
	if neg {
		lit = append(lit, '-')
	}
	lit = append(lit, d[:ni]...)
	if nf > 0 {
		lit = append(lit, '.')
		lit = append(lit, d[ni:]...)
	}
	if hasExp {
		lit = append(lit, 'e')
		a := e
		if a < 0 {
			lit = append(lit, '-')
			a = -a
		} else if nd.Bool() {
			lit = append(lit, '+')
		}
		if a >= 10 {
			lit = append(lit, byte('0'+a/10))
		}
		lit = append(lit, byte('0'+a%10))
	}
	for i := range d {
		mant = mant*10 + uint64(d[i]-'0')
	}
	return lit, neg, mant, e - nf
}

// c22value: the exact value mant*10^scale when it is a non-negative integer below 2^64.
// integral=false: not an integer; fits=false: an integer of 2^64 or more.
func c22value(mant uint64, scale int) (v uint64, integral, fits bool) {
	if mant == 0 {
		return 0, true, true
	}
	if scale >= 0 {
		if scale > 19 {
			return 0, true, false
		}
		hi, lo := bits.Mul64(mant, c22pow10[scale])
		return lo, true, hi == 0
	}
	if -scale > 19 {
		return 0, false, false
	}
	p := c22pow10[-scale]
	if mant%p != 0 {
		return 0, false, false
	}
	return mant / p, true, true
}

func c22check(maxInt, maxFrac, maxExp int) {
	lit, neg, mant, scale := c22literal(maxInt, maxFrac, maxExp)
	n, ok := parseNumber(lit)
	nd.Assert(ok && n == len(lit), "literal is a JSON number")
	tok := Token{kind: Number, raw: lit}
	v, integral, fits := c22value(mant, scale)
	nd.Reach("literal")

	i64, ok64 := tok.Int(64)
	want64 := integral && fits && ((!neg && v <= 1<<63-1) || (neg && v <= 1<<63))
	nd.Assert(ok64 == want64, "int64 accepts exactly the representable integers")
	if ok64 && want64 {
		nd.Reach("int64 accepted")
		if neg {
			nd.Assert(uint64(i64) == -v, "int64 value (negative)")
		} else {
			nd.Assert(uint64(i64) == v, "int64 value")
		}
	}
	i32, ok32 := tok.Int(32)
	want32 := integral && fits && ((!neg && v <= 1<<31-1) || (neg && v <= 1<<31))
	nd.Assert(ok32 == want32, "int32 accepts exactly the representable integers")
	if ok32 && want32 {
		if neg {
			nd.Assert(i32 == -int64(v), "int32 value (negative)")
		} else {
			nd.Assert(i32 == int64(v), "int32 value")
		}
	}
	u64, oku64 := tok.Uint(64)
	wantu64 := integral && fits && (!neg || v == 0)
	nd.Assert(oku64 == wantu64, "uint64 accepts exactly the representable integers")
	if oku64 && wantu64 {
		nd.Reach("uint64 accepted")
		nd.Assert(u64 == v, "uint64 value")
	}
	u32, oku32 := tok.Uint(32)
	wantu32 := integral && fits && (!neg || v == 0) && v <= 1<<32-1
	nd.Assert(oku32 == wantu32, "uint32 accepts exactly the representable integers")
	if oku32 && wantu32 {
		nd.Assert(u32 == v, "uint32 value")
	}
}

// H_C22_int: integer fields decode JSON number literals exactly whatever their notation
// (plain, fraction, exponent) and reject non-integral or out-of-range values.
//
//verif:props=C22 bounds=sign;<=2-integer-digits;<=2-fraction-digits;exponent-in{-3..3,17..22}(quick);<=3-int/2-frac/exp--21..21(thorough);all-digits-symbolic solver=cvc5-int timeout=30000 maxsteps=4000000 deadline=1500
func H_C22_int() {
	if nd.Thorough() {
		c22check(3, 2, 21)
	} else {
		c22check(2, 2, 0)
	}
}

// H_C22_int_limits: 19/20-digit plain integers around the 64-bit limits: a concrete 16/17-digit
// prefix (of 2^63 = 9223372036854775808 or 2^64 = 18446744073709551616) followed by three
// symbolic digits, with and without a minus sign.
//
//verif:props=C22 bounds=sign;prefix-of-2^63-or-2^64+3-symbolic-digits solver=z3 timeout=30000 maxsteps=4000000
func H_C22_int_limits() {
	neg := nd.Bool()
	prefix := "9223372036854775"
	if nd.Bool() {
		prefix = "18446744073709551"
	}
	d := nd.BytesN(3)
	for i := range d {
		nd.Assume('0' <= d[i] && d[i] <= '9')
	}
	var lit []byte
	if neg {
		lit = append(lit, '-')
	}
	lit = append(lit, prefix...)
	lit = append(lit, d...)
	tail := uint64(d[0]-'0')*100 + uint64(d[1]-'0')*10 + uint64(d[2]-'0')
	tok := Token{kind: Number, raw: lit}
	nd.Reach("literal")
	i64, ok64 := tok.Int(64)
	u64, oku := tok.Uint(64)
	if len(prefix) == 16 {
		// value = 9223372036854775000 + tail; int64 max = ...807, min = -...808
		v := uint64(9223372036854775000) + tail
		want64 := (!neg && tail <= 807) || (neg && tail <= 808)
		nd.Assert(ok64 == want64, "int64 accepts exactly the representable integers")
		if ok64 && want64 {
			nd.Reach("int64 accepted")
			if neg {
				nd.Assert(uint64(i64) == -v, "int64 value (negative)")
			} else {
				nd.Assert(uint64(i64) == v, "int64 value")
			}
		}
		nd.Assert(oku == !neg, "uint64 accepts exactly the representable integers")
		if oku && !neg {
			nd.Reach("uint64 accepted")
			nd.Assert(u64 == v, "uint64 value")
		}
	} else {
		// value = 18446744073709551000 + tail; uint64 max = ...615
		nd.Assert(!ok64, "int64 rejects 20-digit values")
		wantu := !neg && tail <= 615
		nd.Assert(oku == wantu, "uint64 accepts exactly the representable integers")
		if oku && wantu {
			nd.Reach("uint64 accepted")
			nd.Assert(u64 == uint64(18446744073709551000)+tail, "uint64 value")
		}
	}
}
